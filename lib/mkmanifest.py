#!/usr/bin/env python3
"""Regenerates MANIFEST.json from the table below (keeps it valid at all times)."""
import json, os, subprocess
V = os.path.dirname(os.path.dirname(os.path.abspath(__file__)))
props = [json.loads(l) for l in open(os.path.join(V, "properties.jsonl"))]
ids = [p["id"] for p in props]

CLAIMS = {
 "C08": dict(cat="exploration", tech="TLC model check of spec/Framing.tla + TLC trace validation (spec/TraceFraming.tla) of recovery over injected tail damage, ground truth from an independent decoder",
   text="Framing.tla transcribes the segment/recovery iterators over abstract tails and is checked for all tails of up to 3 items. Real databases are damaged (cut records, single flipped bits, zeroes, garbage, damaged record followed by a well-formed one, over-claiming headers; any segment) and recovered by the real code; TLC computes from the abstract description of each segment what must be replayed and where each file must be cut, and compares contents, Count, Has, Items and file sizes.",
   note="Byte-level fidelity (CRC, length arithmetic) is observed, not modelled: the damage is concretised by the harness and labelled by construction; the pre-damage records are read by an independent decoder.", ref="4.4, 6 (C08), 8"),
 "C14": dict(cat="exploration", tech="Layer-A Hold/Observe trace validation (TLC) of held slices re-read across later histories on all file systems",
   text="Every slice returned by Get/GetAppend/Next is kept with its digest and re-read after later puts, deletes, compactions, remaps, restarts and Close (fault handler armed); buffers passed in are overwritten right after each call. TLC validates the Hold/Observe events and all later reads against Layer A.",
   note="Memory aliasing is outside TLA+; the specification supplies histories and oracle only.", ref="6 (C14), 8"),
 "C15": dict(cat="model_checking", tech="Layer-A trace validation (TLC) of strict recordings with directory listings after every Compact and steady-state resource rounds; Wal model (Sync never fails)",
   text="In strict recordings any error of Sync/Compact/Backup/Close is a violation; after every successful Compact the directory listing is validated by TLC (compacted segments and side files gone, count equals the reported one, only legitimate files remain), including histories where compaction removes every segment; steady-state rounds on fs.OS/fs.OSMMap record file count, bytes, descriptors and mappings, which TLC bounds by the live data.",
   note="Resource bounds are affine in the number of live segments / live bytes with constants stated in spec/TraceAbs.tla (TRound).", ref="6 (C15)"),
 "C16": dict(cat="exploration", tech="Layer-A trace validation (TLC) of boundary-length programs incl. crash images",
   text="Programs over boundary key and value lengths, over-long keys and values around the sector, buffer and segment-capacity boundaries (thorough: the 512 MiB limit) are run sequentially on all file systems and with crash enumeration on crashfs; TLC validates byte-exact round trips (digests), error-and-no-effect for too-large Puts and absent-key behaviour of over-long keys.",
   note="Partly encode/decode fidelity: the model contributes the oracle, the lengths are chosen by the harness.", ref="6 (C16), 8"),
 "C17": dict(cat="exploration", tech="differential runs on four file systems, each validated against Layer A, equality of responses and segment bytes checked by TLC (fscmp)",
   text="The same programs (with pinned hash seed; growth, truncation by recovery, removal by compaction, restarts, torn tails) run on fs.Mem, fs.OS, fs.OSMMap and crashfs; TLC validates each recording against Layer A and requires the response digests and the segment-file bytes to be identical across file systems.",
   note="Differential testing; the specification is the common oracle.", ref="6 (C17), 8"),
 "C18": dict(cat="exploration", tech="golden corpus of the pinned version opened by the current code + independent decoder replay, both validated by TLC against Layer A",
   text="Seven golden directories written by the pinned version are opened by the current code on fs.OS and fs.OSMMap (contents identical, recovery iff unclean, database usable afterwards); every segment file the current code writes in sequential recordings is decoded by an independent reader of the documented format and its replay must equal the Layer-A contents.",
   note="The corpus is fixed; the decoder is hand-written from docs/design.md.", ref="6 (C18), 8"),
 "C19": dict(cat="exploration", tech="TLC model check of spec/Framing.tla (AllocBounded) + TLC trace validation of measured allocation of the recovering Open over header classes",
   text="Framing.tla bounds the iterator's allocation by the bytes present for every tail (the pinned allocate-what-is-claimed config is refuted). Garbage headers of all size classes (key 0..65535, value 0..2^31-1, both types, 0-5000 trailing bytes) are placed after the last valid record; the recovering Open of the real code is measured and TLC checks allocation <= 32 x bytes on disk + 1 MiB together with the C08 outcome.",
   note="Allocation is runtime.MemStats.TotalAlloc measured in-process; constants calibrated on the repaired tree (0.3-0.43 MB).", ref="4.4, 6 (C19), 8"),
 "C13": dict(cat="model_checking", tech="TLC model check of spec/LockProto.tla (system-call interleavings) + TLC linearizability validation (spec/TraceLock.tla) of enumerated real schedules driven through yield hooks",
   text="LockProto.tla models stat/open/flock/verify/unlink/close and process death of 3 processes x 2 rounds exhaustively (AtMostOneHolder, NoLeak hold for the repaired protocol; the pinned protocol is refuted; MustRecover is refuted = known finding D5c). The real lock code is driven through enumerated interleavings of its system-call steps (2-3 openers with a closing or dying holder) on a real directory via the verif yield hooks, and every schedule's results are validated by TLC as a linearizable lock object. Database-level session chains (clean/unclean ends, competing Opens, Open attempts that fail with an injected transient file-system error before the next successful Open) are validated against Layer A.",
   note="Processes are goroutines (flock conflicts between open file descriptions within a process); only the unix lock code is exercised. Known finding D5c is listed in known_findings.json.", ref="4.3, 6 (C13)"),
 "C07": dict(cat="model_checking", tech="TLC linearization search (silent Lin steps, just-in-time placement) over recorded concurrent histories against Layer A",
   text="Free-running concurrent histories of the real code (2-3 writers/readers on hot keys plus a goroutine running Compact, Sync, Backup, scans, Count, FileSize, Metrics, optionally the background workers; all four file systems) and hook-forced interleavings with compaction are recorded with real-time-ordered invocation/response events; TLC searches for linearization points against the sequential map of Layer A and rejects a history only if no order explains the results. Quiescent read-backs at barriers and after the final clean reopen are compared exactly.",
   note="Trusts TLC and the event stamping (one mutex around event emission; inv before the call, ret after). Bounded concurrency (<= 4 overlapping calls) keeps the search finite in practice.", ref="6 (C07)"),
 "C10": dict(cat="model_checking", tech="Layer-A trace validation of -race stress recordings incl. Close races; race/fault/stuck/leak observations are events no spec action accepts",
   text="The harness is built with the Go race detector and runs workers, a maintenance goroutine and the background workers on fs.Mem, fs.OS and fs.OSMMap, with Close fired at random points; panics/faults, 60 s without progress, goroutines left inside pogreb after Close (also deterministically: a background compaction parked at its first yield point while Close is called), race reports and a dying process enter the recording as events that Layer A never accepts. spec/Locks.tla checks the lock discipline at design level (no deadlock, termination, Close waits for the worker). TLC additionally validates that calls overlapping Close fail or have a legal linearized effect and that the directory reopens with exactly the linearized contents.",
   note="Data races and memory faults are outside TLA+: they are observed by the race detector / fault handler on the schedules run; completeness is that of those schedules. Deadlock freedom likewise by watchdog on these schedules.", ref="6 (C10), 8"),
 "C02": dict(cat="model_checking", tech="TLA+ Layer-A trace validation (TLC) of session-cut histories incl. fs.OS/fs.OSMMap alternation; TLC model check of spec/Wal.tla (Close/OpenClean)",
   text="Random histories over colliding keys are cut into sessions by Close/Open at random positions on all four file systems (session patterns: compaction-only sessions, sessions that leave the counts unchanged, bursts of new keys after a restart, empty-then-refill; half of the programs with pogreb's own random hash seeds), half of them alternating fs.OS and fs.OSMMap on one directory; every reopen is observed (contents, Count, Has, Items, recovery indicator) and validated by TLC against Layer A's OpenClean. The Wal model checks Close/OpenClean with persisted metadata exhaustively within its bounds; the pinned 'reuse any unfilled segment' config must be refuted.",
   note="Trusts TLC and the harness; recovery indicator = pogreb's log output of that Open.", ref="6 (C02)"),
 "C05": dict(cat="model_checking", tech="TLC model check of spec/Wal.tla (writers interleaved with Pick/Seal/Step/Remove, crashes) + Layer-A trace validation of hook-scheduled interleavings with crash images",
   text="The Wal model interleaves Put/Del with every step of compaction and with crashes exhaustively within bounds (Represents, ReplayOK); the pinned pick-then-seal config must be refuted. On the real code writers are injected through the verif yield hook at random subsets of all yield points of Compact (after the pick, before each seal, before every record, before each removal), with crash images at every mutating file-system call inside and outside Compact; TLC validates the recordings against Layer A.",
   note="Trusts TLC, crashfs, and that an operation run at a lock-free yield point on the compacting goroutine is equivalent to another goroutine scheduled there.", ref="6 (C05)"),
 "C11": dict(cat="model_checking", tech="TLC model check of spec/LHIndex.tla (ScanExact, SplitMovesForward) + Layer-A trace validation of call-by-call scans",
   text="Quiescent scans are exact in LHIndex for every hash assignment and in every read-back of the recorded histories; concurrent scans are stepped call by call between engineered puts (splits under the cursor), deletes and compaction, and TLC validates truthfulness and completeness for untouched keys against Layer A's scan bookkeeping.",
   note="Trusts TLC and the harness. Interleavings are at Next-call granularity (each Next holds the read lock for its whole duration in the code).", ref="6 (C11)"),
 "C12": dict(cat="model_checking", tech="Layer-A trace validation (TLC) of Backup calls with writers hook-scheduled into every gap of Backup",
   text="Writers (with rollover, in bursts) are injected at the yield points of Backup (after the capture, before each segment copy, before the lock file), and free-running histories take backups while writers and a compactor keep running; every backup is opened by the real code and read back; TLC validates that the backup equals the contents at one instant between call and return (Backup's Lin step) and that the source is unaffected.",
   note="Trusts TLC and the harness; the maintenance lock excludes compaction during Backup by construction (checked in C10's concurrent runs).", ref="6 (C12)"),
 "C01": dict(cat="model_checking", tech="TLC model check of spec/LHIndex.tla (every hash assignment) + TLA+ Layer-A trace validation of recordings over engineered colliding keys",
   text="The linear-hashing index is specified in spec/LHIndex.tla and checked exhaustively by TLC for every assignment of hashes to 4-5 keys (C=2 and C=3 slots per bucket, up to 9 operations: Represents, CountOK, ScanExact, WellFormed, SplitMovesForward); the pinned findInsertionBucket config must be refuted. The real code is then driven through random histories over ~80 keys engineered (pinned seed) to share low hash bits and full 32-bit hashes, on crashfs, fs.Mem, fs.OS and fs.OSMMap with small segments, compaction and clean restarts; every result and periodic full read-backs (Get, Has, Count, Items) are validated by TLC against the sequential map of Layer A.",
   note="Trusts TLC and the harness; real-constant (31 slots) behaviour is covered by recordings, not exhaustively.", ref="4.2, 6 (C01)"),
 "C03": dict(cat="model_checking", tech="TLA+ Layer-A trace validation (TLC) of crash-image recordings from the real code",
   text="Every recording of the real code on the fault-enumerating file system (a crash image before every mutating file-system call and at every 512-aligned cut of an in-flight write, each image reopened by the real code and read back) is validated by TLC against the property-level specification spec/PogrebAbs.tla (actions Image/Reopened/CrashOK). Model checking of recordings, not a proof: assurance is for the enumerated histories and crash points.",
   note="Trusts: TLC, the crashfs fault model (= the process-crash model stated in the property), the harness read-back through the public API.", ref="5.2, 6 (C03)"),
 "C04": dict(cat="model_checking", tech="TLA+ Layer-A trace validation (TLC) of multi-epoch crash recordings; TLC model check of spec/Wal.tla",
   text="Runs that continue INSIDE crash images for several epochs (crash points also inside the recovering Open, every image recovered twice) are recorded from the real code and validated by TLC against Layer A (Continue, Reopened with idempotence); the bounded Wal model (recovery, truncation, append offset) is checked exhaustively and its pinned-behaviour config must reproduce the repaired defect.",
   note="Trusts TLC, crashfs and the harness read-back; bounded exploration, not a proof.", ref="6 (C04)"),
 "C06": dict(cat="model_checking", tech="TLA+ Layer-A trace validation (TLC) of power-loss image recordings; TLC model check of spec/Wal.tla (power family)",
   text="At every mutating file-system call of random histories (both sync modes, rollover, compaction, earlier recoveries) the admissible power-loss images are reopened by the real code; TLC validates the recordings against Layer A's per-key durable floor (LossOK). The Wal model's power-loss family is checked exhaustively within small bounds, with one refuted pinned-behaviour config per repaired durability defect.",
   note="Trusts TLC, the crashfs durability bookkeeping (= the power-loss model stated in the property) and the sampling of image products when they exceed the per-instant limit.", ref="6 (C06)"),
 "C09": dict(cat="model_checking", tech="TLA+ Layer-A trace validation (TLC) of power-loss images taken after Close; TLC model check of spec/Wal.tla (Close/OpenClean)",
   text="Power-loss images from the return of every Close to the end of the next Open (all files relevant since no lock file remains) are reopened by the real code in both sync modes; TLC validates them against Layer A with the durable floor set to everything at ret(Close).",
   note="Same trusted base as C06.", ref="6 (C09)"),
}

STRICT = (" Strict-mode recordings additionally log the projected implementation state after every call (every segment with its records, the whole index bucket by bucket); "
          "TLC checks them against Layer B: spec/TraceWal.tla (invariants of Wal.tla on every observed state, post-conditions of Put/Del/Compact on every step) and spec/TraceLH.tla "
          "(LHIndex.tla run in lockstep with C=31: the real index must equal the model's bucket for bucket, slot for slot, free list included; a clean restart restores it exactly). "
          "A mismatch there is reported as DRIFT in the evidence and never as a violation.")
CLAIMS["C01"]["text"] += STRICT
CLAIMS["C02"]["text"] += STRICT
CLAIMS["C01"]["tech"] += "; strict-mode conformance of the real index and log with Layer B (TraceLH.tla lockstep, TraceWal.tla)"
CLAIMS["C12"]["text"] += (" Layer B: spec/WalBackup.tla models Backup at the grain of backup.go (capture of the segment list and append offsets in one read-locked section, lock-free copies, lock file) interleaved with writers, rollover and crashes; "
                          "TLC checks that the finished copy replays to the contents at the capture and that the copy never fails, and refutes three variants (copy active segments whole, no maintenance lock, list taken after the offsets).")
CLAIMS["C12"]["tech"] = "TLC model check of spec/WalBackup.tla (Backup interleaved with writers; three variants refuted) + " + CLAIMS["C12"]["tech"]
CLAIMS["C13"]["text"] += (" Exit paths: spec/WalClose.tla adds a Close that fails at any of its steps to Wal.tla (the lock file stays, the next Open recovers; the variant that removes the lock file after a failure to persist the index is refuted); "
                          "on the real code Close is made to fail at each of its file-system calls and Open at seeded calls, the process exits, and Layer A judges the next Open (recovery iff the lock file is there, contents exactly the acknowledged ones).")
CLAIMS["C07"]["text"] += " A further family runs on a file system whose reads of segment and index files pause before touching the file, which widens any window in which a reader is not protected by the lock."
CLAIMS["C04"]["text"] += STRICT.replace("Strict-mode recordings", "Strict-mode recordings with simulated unclean shutdowns (garbage appended to, bytes cut off the newest segment)")
CLAIMS["C10"]["text"] += (" Deterministic additions: close-race histories (a Close or a compaction started from inside the reader's critical section, on a file system whose windows become inaccessible when the file is closed, as fs.OSMMap's do) "
                          "and Compact/Sync made to fail at seeded file-system calls, after which the next call runs under a watchdog (a lock left behind on an error path is a stuck event). spec/Locks.tla checks the lock discipline at the design level (no deadlock, termination, Close waits for the worker).")
CLAIMS["C14"]["text"] += " Close-race histories (see C10) show that what Get, GetAppend and Next hand out was copied before the lock was released: a late copy takes a memory fault."
CLAIMS["C15"]["text"] += " After every successful Close on fs.OS/fs.OSMMap the process must hold no descriptor and no mapping of the database directory (closed_res); Compact/Sync failing at seeded file-system calls must leave the database usable."
CLAIMS["C17"]["text"] += (" Simulated unclean shutdowns append garbage to, or cut bytes off, the newest segment (then TLC requires the contents replayed by the independent decoder: Layer A's DamagedOpened), "
                          "or truncate it inside its header (outcome compared across file systems only).")
NA_REASON = "not claimed"

hooks = subprocess.run(["git", "-C", "/repo", "log", "--format=%H %s"], capture_output=True, text=True).stdout.splitlines()
hook_commits = [l.split()[0] for l in hooks if " verif:" in l]

m = dict(version=1,
  setup_cmd="cd /verif/harness && GOFLAGS=-mod=mod GOPROXY=off GOSUMDB=off GOTOOLCHAIN=local go build -tags verif -o /dev/null ./cmd/vrun",
  hooks=dict(guard="verif", enable="go build -tags verif (harness module /verif/harness, replace github.com/akrylysov/pogreb => /repo)",
             baseline_off_cmd="cd /repo && go test -vet=off -count=1 ./...", source_commits=hook_commits, add_only=True),
  engines=[dict(name="vcheck", path="/verif/vcheck", serves_properties=sorted(CLAIMS), kind_free_text="python orchestrator: builds the Go harness against /repo with -tags verif, records the real code, validates recordings with TLC against spec/*.tla")],
  checks=[], notes="See DESIGN.md. Exit codes: 0 pass / 1 VIOLATION / 2 inconclusive (never a VIOLATION line).",
  not_applicable=[])
for i in ids:
    if i in CLAIMS:
        c = CLAIMS[i]
        m["checks"].append(dict(property_id=i, quick_cmd="./vcheck %s --tier quick" % i, thorough_cmd="./vcheck %s --tier thorough" % i,
            evidence_file="/verif/evidence/%s.json" % i, replay_cmd_template="./vcheck replay {path}", engine="vcheck",
            level_claimed=dict(category=c["cat"], text=c["text"], design_ref=c["ref"]), level_note=c["note"], technique=c["tech"]))
    else:
        m["not_applicable"].append(dict(property_id=i, reason=NA_REASON))
json.dump(m, open(os.path.join(V, "MANIFEST.json"), "w"), indent=1)
print("claimed:", sorted(CLAIMS))
