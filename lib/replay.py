"""vcheck replay <replay.json>: re-validates a rejected recording and, where the recording carries its
program, re-runs that program on the current /repo and validates the new recording.

exit 1 + VIOLATION line if the violation reproduces on the current tree, 0 if the current tree is accepted,
2 if inconclusive."""
import json, os, sys
import common


def spec_for(rec_id):
    if rec_id.startswith("lock-"):
        return "TraceLock.tla", "TraceLock.cfg"
    if rec_id.startswith("framing-"):
        return "TraceFraming.tla", "TraceFraming.cfg"
    return "TraceAbs.tla", "TraceAbs.cfg"


def main(argv):
    if not argv:
        print(__doc__)
        return 2
    path = argv[0]
    r = json.load(open(path))
    prop = r.get("property", "C00")
    ctx = common.Ctx(prop, "quick", int(r.get("seed", 1)))
    try:
        chunk = r["recording"]
        head = json.loads(chunk[0])
        module, cfg = spec_for(head.get("id", ""))
        stored = ctx.path("stored.ndjson")
        open(stored, "w").write("\n".join(chunk) + "\n")
        res = ctx.tlc(module, cfg, env={"TRACE": stored}, workers=1, dfs=True)
        if res["error"]:
            print("INCONCLUSIVE: TLC error on the stored recording:", res["error"][:500])
            return 2
        print("stored recording: %s" % ("rejected at event %d (as reported: %s)" % (res["rejected_at"], r.get("rejected_at_event"))
                                        if res["rejected_at"] else "ACCEPTED by the current specification"))
        run = head.get("run") or {}
        if head.get("prog") and run.get("mode") in ("seq", "crash", "power") and head.get("fs") == "crashfs":
            item = ctx.path("item.ndjson")
            open(item, "w").write(json.dumps({"prog": head["prog"], "run": run}) + "\n")
            out = ctx.path("rerun.ndjson")
            ctx.vrun(["regress", "-in", item, "-out", out])
            rejs = ctx.validate([out])
            if rejs:
                print("re-run on the current tree: rejected again at event %d" % rejs[0]["at"])
                print("VIOLATION property=%s replay=%s" % (prop, path))
                return 1
            print("re-run on the current tree: accepted (the violation does not reproduce)")
            return 0
        print("(this kind of recording is its own witness: free-running or schedule-driven; it is not re-executed)")
        if res["rejected_at"]:
            print("VIOLATION property=%s replay=%s" % (prop, path))
            return 1
        return 0
    except common.Inconclusive as e:
        print("INCONCLUSIVE:", str(e)[:2000])
        return 2
    finally:
        ctx.cleanup()
