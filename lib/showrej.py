#!/usr/bin/env python3
"""showrej <replay.json> - timeline of a rejected recording up to the rejection."""
import json, sys
r = json.load(open(sys.argv[1]))
ch, at = r['recording'], r['rejected_at_event']
print(ch[0][:300])
for i, l in enumerate(ch[:at], 1):
    e = json.loads(l)
    k = e['e']
    if k == 'inv':
        print(i, 'inv', e.get('t'), e.get('op'), e.get('k', ''), e.get('v', ''))
    elif k == 'ret':
        print(i, 'ret', e.get('t'), e.get('op'), e.get('err'), {x: e[x] for x in e if x in ('nil', 'v', 'found', 'n', 'segments')})
    elif k in ('continue', 'note', 'fault'):
        print(i, l[:300])
    elif k == 'reopened' and i < at - 3:
        print(i, 'reopened rec=%s kv=%s' % (e['recovered'], json.dumps(e['kv'])[:200]))
    if i >= at - 3 and k not in ('inv', 'ret'):
        print(i, l[:400])
