"""Turns behaviours exported by TLC (GenWal.tla / GenLH.tla, lines <<"BEH", "json">>) into harness programs."""
import json, random, re

KEYPAD = 200     # long keys make put and delete records about the same size: 2 records per segment as in the model


def parse(path):
    out = []
    for line in open(path, errors="replace"):
        if line.startswith('<<"BEH", "'):
            s = line.strip()[len('<<"BEH", '):-2]
            try:
                out.append(json.loads(json.loads(s)))
            except Exception:
                pass
    return out


def wal_program(hist, pid, power):
    """Model behaviour -> program. SegCap = 2 records <=> maxseg = 512 + 2*212 + 100."""
    cfg = dict(fs="crashfs", syncw=False, maxseg=512 + 2 * (10 + KEYPAD + 2) + 100, minseg=1, minfrag=0.0001, strict=False)
    ops = []
    nv = [0]

    def val(v):
        nv[0] += 1
        if v == "v2big":
            return dict(v="B%d_" % nv[0], vl=700)
        return dict(v="%s%d" % (v[1], nv[0] % 10))   # 2 bytes

    i, n = 0, len(hist)
    closed = False
    while i < n:
        e = hist[i]
        op = e["op"]
        if op in ("put", "del"):
            o = dict(op=op, k=e["k"] + "_", kl=KEYPAD)
            if op == "put":
                o.update(val(e["v"]))
            ops.append(o)
        elif op == "sync":
            ops.append(dict(op="sync"))
        elif op == "close":
            ops.append(dict(op="close")); closed = True
        elif op == "open":
            # after a failure the harness has already reopened the directory (continue in the image)
            if closed:
                ops.append(dict(op="open"))
            closed = False
        elif op == "crash":
            ops.append(dict(op="crashnow")); closed = False
        elif op == "powerloss":
            ops.append(dict(op="powernow")); closed = False
        elif op == "tornput":
            ops.append(dict(op="crashat", n=0, cut=1))
            ops.append(dict(op="put", k="k1_", kl=KEYPAD, v="T%d_" % i, vl=600))   # spans a sector: can be torn
            closed = False
        elif op == "recover":
            pass
        elif op == "pick":
            inject, steps, j = [], 0, i + 1
            crash = None
            while j < n and hist[j]["op"] in ("cstep", "put", "del", "sync"):
                h = hist[j]
                if h["op"] == "cstep":
                    steps += 1
                elif h["op"] == "sync":
                    inject.append(dict(at=steps + 1, ops=[dict(op="sync")]))
                else:
                    o = dict(op=h["op"], k=h["k"] + "_", kl=KEYPAD)
                    if h["op"] == "put":
                        o.update(val(h["v"]))
                    inject.append(dict(at=steps + 1, ops=[o]))
                j += 1
            if j < n and hist[j]["op"] in ("crash", "tornput", "powerloss"):
                # the failure strikes inside the compaction
                ops.append(dict(op="crashat" if hist[j]["op"] != "powerloss" else "powerat", n=2 * steps, cut=1 if hist[j]["op"] == "tornput" else 0))
                j += 1
            ops.append(dict(op="compact", t=1, inject=inject))
            i = j
            continue
        i += 1
    return dict(id=pid, cfg=cfg, ops=ops)


def lh_program(hist, pid, mult, keys_of):
    """LHIndex behaviour -> program with `fat keys': every model key stands for `mult' real keys of its hash class."""
    cfg = dict(fs="crashfs", syncw=False, maxseg=65536, minseg=1, minfrag=0.3, strict=False)
    ops = []
    for n, e in enumerate(hist):
        for rk in keys_of(e["k"], e["h"], mult):
            if e["op"] == "put":
                ops.append(dict(op="put", k=rk, v="m%d" % n))
            else:
                ops.append(dict(op="del", k=rk))
    return dict(id=pid, cfg=cfg, ops=ops)


def sample(behs, n, seed, minlen=3):
    rnd = random.Random(seed)
    behs = [b for b in behs if len(b) >= minlen]
    # prefer long behaviours and those with faults / compaction gaps
    def weight(b):
        w = len(b)
        kinds = {e["op"] for e in b}
        for k, bonus in (("tornput", 6), ("crash", 4), ("powerloss", 6), ("pick", 4), ("close", 3)):
            if k in kinds:
                w += bonus
        return w
    if len(behs) <= n:
        return behs
    ws = [weight(b) for b in behs]
    return rnd.choices(behs, weights=ws, k=n)


def murmur3_32(data, seed):
    """MurmurHash3_x86_32 (the documented index hash), for engineering keys on the orchestrator side."""
    c1, c2 = 0xcc9e2d51, 0x1b873593
    h1 = seed & 0xffffffff
    n = len(data)
    i = 0
    while i + 4 <= n:
        k1 = data[i] | data[i + 1] << 8 | data[i + 2] << 16 | data[i + 3] << 24
        k1 = (k1 * c1) & 0xffffffff
        k1 = ((k1 << 15) | (k1 >> 17)) & 0xffffffff
        k1 = (k1 * c2) & 0xffffffff
        h1 ^= k1
        h1 = ((h1 << 13) | (h1 >> 19)) & 0xffffffff
        h1 = (h1 * 5 + 0xe6546b64) & 0xffffffff
        i += 4
    k1 = 0
    r = n - i
    if r == 3:
        k1 ^= data[i + 2] << 16
    if r >= 2:
        k1 ^= data[i + 1] << 8
    if r >= 1:
        k1 ^= data[i]
        k1 = (k1 * c1) & 0xffffffff
        k1 = ((k1 << 15) | (k1 >> 17)) & 0xffffffff
        k1 = (k1 * c2) & 0xffffffff
        h1 ^= k1
    h1 ^= n
    h1 ^= h1 >> 16
    h1 = (h1 * 0x85ebca6b) & 0xffffffff
    h1 ^= h1 >> 13
    h1 = (h1 * 0xc2b2ae35) & 0xffffffff
    h1 ^= h1 >> 16
    return h1


class FatKeys:
    """Real keys per (model key, hash class): `mult' keys whose hash has the model hash as its low 3 bits."""
    def __init__(self, seed, bits=3):
        self.seed, self.bits, self.pool, self.next = seed, bits, {}, 0
        self.assigned = {}

    def keys(self, mk, h, mult):
        key = (mk, h)
        if key not in self.assigned:
            got = []
            mask = (1 << self.bits) - 1
            while len(got) < mult:
                k = "q%06d" % self.next
                self.next += 1
                if murmur3_32(k.encode(), self.seed) & mask == h & mask:
                    got.append(k)
            self.assigned[key] = got
        return self.assigned[key][:mult]
