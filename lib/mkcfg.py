#!/usr/bin/env python3
"""Generates the TLC configs of the Wal model: one all-repaired config per family and one
pinned-behaviour config per defect (which must produce a counterexample)."""
import os
V = os.path.dirname(os.path.dirname(os.path.abspath(__file__)))
FIX = ["FixSize", "FixNewestOnly", "FixSealAtPick", "FixSyncOnSeal", "FixSyncBeforeUnlink", "FixSyncAtClose", "FixSyncRemovedCur"]

def cfg(name, power, restart, maxops, maxcrash, invs, off=(), big=False, keys=2, vals=2, segcap=2, maxseg=4, backup=None, keepslock=None):
    ks = ", ".join("k%d" % i for i in range(1, keys + 1))
    vs = ["v%d" % i for i in range(1, vals + 1)]
    lines = ["SPECIFICATION Spec", "CONSTANTS",
             "  Keys = {%s}" % ks, "  Vals = {%s}" % ", ".join(vs), "  BigVals = {%s}" % (vs[-1] if big else ""),
             "  SegCap = %d" % segcap, "  MaxSeg = %d" % maxseg, "  MaxOps = %d" % maxops, "  MaxCrash = %d" % maxcrash,
             "  Power = %s" % ("TRUE" if power else "FALSE"), "  Restart = %s" % ("TRUE" if restart else "FALSE")]
    for f in FIX:
        lines.append("  %s = %s" % (f, "FALSE" if f in off else "TRUE"))
    if backup:
        lines[0] = "SPECIFICATION BSpec"
        lines.append('  Variant = "%s"' % backup)
    if keepslock is not None:
        lines[0] = "SPECIFICATION CSpec"
        lines.append("  KeepsLock = %s" % ("TRUE" if keepslock else "FALSE"))
    lines += ["INVARIANTS " + " ".join(invs), "CHECK_DEADLOCK FALSE", "VIEW BView" if backup else "VIEW CView" if keepslock is not None else "VIEW View"]
    open(os.path.join(V, "spec", "cfg", name + ".cfg"), "w").write("\n".join(lines) + "\n")

CRASH = ["Represents", "ReplayOK", "CleanOK", "NoGap", "SyncOK", "CurIsNewest"]
POWER = CRASH + ["DurableOK", "CleanDurableOK"]
# all repaired
cfg("wal_crash_q", False, True, 5, 2, CRASH, big=True)
cfg("wal_crash_t", False, True, 6, 2, CRASH, big=True)
cfg("wal_power_q", True, True, 4, 2, POWER, big=True)
cfg("wal_power_t", True, True, 5, 2, POWER, big=True)
cfg("wal_crash3_t", False, False, 6, 3, CRASH)
# pinned behaviours: each must be refuted
cfg("wal_pinned_D2", False, False, 4, 2, ["ReplayOK", "NoGap"], off=["FixSize"])
cfg("wal_pinned_D11", False, True, 5, 1, ["ReplayOK", "CurIsNewest"], off=["FixNewestOnly"], big=True)
cfg("wal_pinned_D8", False, False, 6, 1, ["ReplayOK"], off=["FixSealAtPick"])
cfg("wal_pinned_D3a", True, False, 5, 1, ["DurableOK"], off=["FixSyncOnSeal"])
cfg("wal_pinned_D3b", True, False, 5, 1, ["DurableOK"], off=["FixSyncBeforeUnlink"])
cfg("wal_pinned_D9", True, False, 5, 2, ["DurableOK"], off=["FixNewestOnly"])
cfg("wal_pinned_D4", True, True, 4, 1, ["Represents", "CleanDurableOK"], off=["FixSyncAtClose"])
cfg("wal_pinned_D6b", True, False, 5, 0, ["SyncOK"], off=["FixSyncRemovedCur"])

# Backup (WalBackup.tla): the code, and three variants that must be refuted
BACKUP = ["Represents", "ReplayOK", "BackupOK", "BackupNeverFails"]
cfg("wal_backup_q", False, False, 4, 1, BACKUP, backup="code")
cfg("wal_backup_m", False, False, 5, 1, BACKUP, backup="code")
cfg("wal_backup_t", False, True, 6, 1, BACKUP, backup="code", big=True)
cfg("wal_backup_whole", False, False, 5, 0, ["BackupOK"], backup="whole")
cfg("wal_backup_nomaint", False, False, 6, 0, ["BackupOK", "BackupNeverFails"], backup="nomaint")
cfg("wal_backup_listlate", False, False, 5, 0, ["BackupOK"], backup="listlate")

# exit paths of Close (WalClose.tla): a failing Close keeps the lock file (the code); one that removes it must be refuted
cfg("wal_close_q", False, True, 5, 1, CRASH, keepslock=True)
cfg("wal_close_t", False, True, 6, 2, CRASH, keepslock=True, big=True)
cfg("wal_close_unlocks", False, True, 5, 0, ["Represents"], keepslock=False)
