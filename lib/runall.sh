#!/bin/bash
# runall.sh [tier] [seed] [log]: every check on /repo, one after the other (rewrites evidence/*.json)
cd "$(dirname "$0")/.."
tier=${1:-quick}; seed=${2:-1}; out=${3:-/tmp/runall.log}
: > $out
for c in C01 C02 C03 C04 C05 C06 C07 C08 C09 C10 C11 C12 C13 C14 C15 C16 C17 C18 C19; do
  s=$(date +%s)
  VERIF_SEED=$seed ./vcheck $c --tier $tier > /tmp/runall-$c.out 2>&1; rc=$?
  echo "$c tier=$tier seed=$seed rc=$rc viol=$(grep -c VIOLATION /tmp/runall-$c.out) known=$(grep -c KNOWN-FINDING /tmp/runall-$c.out) drift=$(grep -c DRIFT /tmp/runall-$c.out) wall=$(( $(date +%s) - s ))s" >> $out
done
echo DONE >> $out
