#!/bin/bash
# matrix.sh: every check on /repo with two seeds, and every seeded mutation against the checks expected to catch it.
# Mutations are applied to scratch worktrees of /repo (never to /repo itself).
cd "$(dirname "$0")/.."   # works from a snapshot copy of /verif too
V=$(pwd)
SEEDED_SEEDS=${MATRIX_SEEDED_SEEDS:-"1 2"}
out=${1:-/tmp/matrix.log}
: > $out
for seed in 1 2; do
  for c in C01 C02 C03 C04 C05 C06 C07 C08 C09 C10 C11 C12 C13 C14 C15 C16 C17 C18 C19; do
    s=$(date +%s)
    VERIF_SEED=$seed ./vcheck $c --tier quick > /tmp/matrix-$c-$seed.out 2>&1; rc=$?
    echo "repo $c seed=$seed rc=$rc viol=$(grep -c VIOLATION /tmp/matrix-$c-$seed.out) known=$(grep -c KNOWN-FINDING /tmp/matrix-$c-$seed.out) wall=$(( $(date +%s) - s ))s" >> $out
  done
done
for d in $V/seeded/S*; do
  id=$(basename $d)
  wt=/tmp/seedwt-$id
  git -C /repo worktree add -q --detach $wt HEAD && git -C $wt apply $d/patch.diff || { echo "seeded $id: patch does not apply" >> $out; continue; }
  for c in $(python3 -c "import json;print(' '.join(json.load(open('$d/meta.json'))['caught_by_quick']))"); do
    for seed in $SEEDED_SEEDS; do
      VERIF_SEED=$seed VERIF_REPO=$wt ./vcheck $c --tier quick > /tmp/matrix-$id-$c-$seed.out 2>&1; rc=$?
      echo "seeded $id $c seed=$seed rc=$rc viol=$(grep -c VIOLATION /tmp/matrix-$id-$c-$seed.out)" >> $out
    done
  done
  git -C /repo worktree remove --force $wt
done
echo DONE >> $out
