"""Shared machinery of the pogreb verification checks (orchestrator side).

Verdicts come from TLC only: a recording of the real code is judged by spec/TraceAbs.tla
(Layer A).  This module builds the harness against /repo's working tree, runs TLC, isolates
rejected recordings, matches them against known_findings.json and writes evidence files.
"""
import json, os, re, shutil, subprocess, sys, tempfile, time, hashlib, concurrent.futures

VERIF = os.path.dirname(os.path.dirname(os.path.abspath(__file__)))
REPO = os.environ.get("VERIF_REPO", "/repo")
JARS = "/opt/veriftools/tla/tla2tools.jar:/opt/veriftools/tla/CommunityModules-deps.jar"
CORES = os.cpu_count() or 4

GOENV = dict(GOFLAGS="-mod=mod", GOPROXY="off", GOSUMDB="off", GOTOOLCHAIN="local")


class Inconclusive(Exception):
    pass


class TLCTimeout(Inconclusive):
    pass


class Ctx:
    """One run of one check."""

    def __init__(self, prop, tier, seed):
        self.prop, self.tier, self.seed = prop, tier, seed
        self.t0 = time.time()
        self.scratch = tempfile.mkdtemp(prefix="vchk-%s-" % prop)
        os.makedirs(os.path.join(self.scratch, "tmp"))
        shutil.copytree(os.path.join(VERIF, "spec"), os.path.join(self.scratch, "spec"))
        self.spec = os.path.join(self.scratch, "spec")
        self.cov = dict(states=0, transitions=0, traces_validated_against_impl=0, samples=[],
                        model_checks=[], recordings=0, events=0, harness={}, rejected=0, known=0, drift=0,
                        rule="", evaluations=0, distinct_nontrivial=0)
        self.assumptions = []
        self.violations = []   # (replay path, description)
        self.known = []        # lines already printed
        self.notes = []
        self._n = 0
        import threading
        self._buildlock = threading.Lock()

    def quick(self):
        return self.tier == "quick"

    def cleanup(self):
        shutil.rmtree(self.scratch, ignore_errors=True)

    def path(self, name):
        return os.path.join(self.scratch, name)

    # ------------------------------------------------------------------ harness
    def build(self, race=False):
        with self._buildlock:
            return self._build(race)

    def _build(self, race=False):
        out = self.path("vrun-race" if race else "vrun")
        if os.path.exists(out):
            return out
        env = dict(os.environ, **GOENV)
        hdir = os.path.join(VERIF, "harness")
        if os.path.realpath(REPO) != "/repo":
            # verification of a scratch worktree (mutation trials): private copy of the harness module
            hdir = self.path("harness")
            if not os.path.exists(hdir):
                shutil.copytree(os.path.join(VERIF, "harness"), hdir)
                gm = open(os.path.join(hdir, "go.mod")).read().replace("=> /repo", "=> " + os.path.realpath(REPO))
                open(os.path.join(hdir, "go.mod"), "w").write(gm)
        cmd = ["go", "build", "-tags", "verif"] + (["-race"] if race else []) + ["-o", out, "./cmd/vrun"]
        p = subprocess.run(cmd, cwd=hdir, env=env, capture_output=True, text=True)
        if p.returncode != 0:
            raise Inconclusive("harness build failed:\n" + p.stdout + p.stderr)
        return out

    def vrun(self, args, race=False, timeout=3600, env=None, allow_crash=False):
        """Run the harness; returns its statistics dict."""
        exe = self.build(race)
        self._n += 1
        st = self.path("stats-%d.json" % self._n)
        e = dict(os.environ)
        e["TMPDIR"] = self.path("tmp")
        if env:
            e.update(env)
        p = subprocess.run([exe] + args + ["-stats", st], capture_output=True, text=True, timeout=timeout, env=e, cwd=self.scratch)
        if (p.returncode != 0 or not os.path.exists(st)) and allow_crash and ("fatal error:" in p.stderr or "panic:" in p.stderr):
            # the process under test died (Go runtime fatal error / unrecovered panic): that is an observation
            i = p.stderr.find("fatal error:")
            if i < 0:
                i = p.stderr.find("panic:")
            return dict(counts={"crashed": 1}, samples=[], crash=p.stderr[i:i + 3000], stderr=p.stderr[-4000:])
        if p.returncode != 0 or not os.path.exists(st):
            raise Inconclusive("harness failed (%s): %s" % (" ".join(args), (p.stdout + p.stderr)[-2000:]))
        with open(st) as f:
            d = json.load(f)
        d["stderr"] = p.stderr[-4000:]
        return d

    def vrun_parallel(self, jobs, race=False):
        """jobs: list of argument lists. Returns list of stats."""
        self.build(race)
        with concurrent.futures.ThreadPoolExecutor(max_workers=CORES) as ex:
            return list(ex.map(lambda a: self.vrun(a, race), jobs))

    # ------------------------------------------------------------------ TLC
    def tlc(self, module, cfg, env=None, workers=1, timeout=1800, extra=None, heap="3g", dfs=False, stdout_file=None):
        self._n += 1
        md = self.path("md-%d" % self._n)
        jopts = ["-Xmx" + heap, "-Xss64m", "-Djava.io.tmpdir=" + self.path("tmp")]
        jopts += ["-XX:+UseSerialGC", "-XX:TieredStopAtLevel=1"] if workers == 1 else ["-XX:+UseParallelGC"]
        if dfs:
            jopts.append("-Dtlc2.tool.queue.IStateQueue=StateDeque")
        cmd = ["java"] + jopts + ["-cp", JARS, "tlc2.TLC", "-workers", str(workers), "-metadir", md,
                                   "-noGenerateSpecTE", "-config", cfg] + (extra or []) + [module]
        e = dict(os.environ)
        e.pop("JAVA_TOOL_OPTIONS", None)
        if env:
            e.update(env)
        try:
            if stdout_file:
                with open(stdout_file, "w") as so:
                    p = subprocess.run(cmd, cwd=self.spec, env=e, stdout=so, stderr=subprocess.PIPE, text=True, timeout=timeout)
                # only the tail is needed for the statistics
                with open(stdout_file, "rb") as so:
                    so.seek(0, 2)
                    so.seek(max(0, so.tell() - 20000))
                    p.stdout = so.read().decode(errors="replace")
            else:
                p = subprocess.run(cmd, cwd=self.spec, env=e, capture_output=True, text=True, timeout=timeout)
        except subprocess.TimeoutExpired:
            subprocess.run(["pkill", "-f", md], capture_output=True)
            shutil.rmtree(md, ignore_errors=True)
            raise TLCTimeout("TLC timeout: %s %s" % (module, cfg))
        shutil.rmtree(md, ignore_errors=True)
        out = p.stdout + p.stderr
        r = dict(out=out, rc=p.returncode, generated=0, distinct=0, rejected_at=None, error=None)
        m = re.search(r"(\d+) states generated, (\d+) distinct states found", out)
        if m:
            r["generated"], r["distinct"] = int(m.group(1)), int(m.group(2))
        m = re.search(r'"REJECTED-AT", (\d+), (\d+)', out)
        if m:
            r["rejected_at"] = int(m.group(1))
        if "Error:" in out and r["rejected_at"] is None:
            r["error"] = out[out.index("Error:"):][:3000]
        simulated = "-simulate" in (extra or []) and "Finished in" in out
        if not m and "Model checking completed" not in out and not simulated and r["rejected_at"] is None and not r["error"]:
            r["error"] = out[-3000:]
        return r

    def model_check(self, module, cfg, workers=None, timeout=3600, expect_violation=None, heap="12g", extra=None):
        """Exhaustive TLC run of a bounded model. expect_violation: name of the invariant that MUST
        be violated (a pinned-behaviour config used as a standing non-vacuity test)."""
        t = time.time()
        r = self.tlc(module, cfg, workers=workers or CORES, timeout=timeout, heap=heap, extra=extra)
        rec = dict(module=module, cfg=cfg, generated=r["generated"], distinct=r["distinct"], wall_s=round(time.time() - t, 1))
        viol = re.search(r"Invariant (\w+) is violated", r["out"]) or re.search(r"Action property (\w+) is violated", r["out"]) \
            or re.search(r"(Deadlock) reached", r["out"]) or re.search(r"Temporal properties were (violated)", r["out"])
        if expect_violation:
            rec["expected_violation"] = expect_violation
            if not viol or (expect_violation != "*" and viol.group(1) != expect_violation):
                raise Inconclusive("model self-test failed: %s/%s did not violate %s\n%s" % (module, cfg, expect_violation, r["out"][-1500:]))
            rec["found_violation"] = viol.group(1)
        else:
            if viol or r["error"] or "Model checking completed. No error" not in r["out"]:
                raise Inconclusive("model check failed (the model, not the code): %s/%s\n%s" % (module, cfg, r["out"][-3000:]))
        self.cov["states"] += r["distinct"]
        self.cov["transitions"] += r["generated"]
        self.cov["model_checks"].append(rec)
        return r

    # ------------------------------------------------------------------ trace validation
    def split_recordings(self, files, per_piece, keep=False):
        """Cuts recording files into pieces of at most per_piece recordings (a rejection costs one re-validation of
        the rest of its piece, so files with many expected rejections - known findings - are validated in small pieces)."""
        pieces = []
        for f in files:
            k, n, out = 0, 0, None
            for line in open(f):
                if '"e":"reset"' in line:
                    if out is None or n >= per_piece:
                        if out:
                            out.close()
                        k += 1
                        n = 0
                        pieces.append("%s.piece%d" % (f, k))
                        out = open(pieces[-1], "w")
                    n += 1
                if out is None:
                    k += 1
                    pieces.append("%s.piece%d" % (f, k))
                    out = open(pieces[-1], "w")
                out.write(line)
            if out:
                out.close()
            if not keep:
                os.remove(f)
        return pieces

    def validate(self, files, module="TraceAbs.tla", cfg="TraceAbs.cfg", dfs=False, max_rej=12, soft_timeout=None, per_piece=None):
        """Validate recording files (ndjson, recordings start with a reset event) against the spec.
        Returns a list of rejections: dict(file, chunk_lines, at, recording_id)."""
        if per_piece:
            files = self.split_recordings(files, per_piece)
        def one_single(f):
            """one recording, a third of the soft limit"""
            try:
                r = self.tlc(module, cfg, env={"TRACE": f}, workers=1, dfs=dfs, timeout=max(30, soft_timeout // 3))
            except TLCTimeout:
                self.cov["unexamined_recordings"] = self.cov.get("unexamined_recordings", 0) + 1
                head = open(f).readline()
                m = re.search(r'"id":"([^"]+)"', head)
                self.notes.append("TLC did not finish recording %s within %d s: left unexamined" % (m.group(1) if m else os.path.basename(f), max(30, soft_timeout // 3)))
                return []
            self.cov["states"] += r["distinct"]
            self.cov["transitions"] += r["generated"]
            if r["error"]:
                raise Inconclusive("TLC error while validating %s:\n%s" % (f, r["error"]))
            if r["rejected_at"] is None:
                return []
            lines = open(f).read().split("\n")
            if lines and lines[-1] == "":
                lines.pop()
            return [dict(chunk=lines, at=r["rejected_at"], source=f)]

        def one(f):
            rejs = []
            cur = f
            examined = 0
            for _ in range(max_rej + 1):
                nlines = sum(1 for _ in open(cur))
                if nlines == 0:
                    break
                try:
                    r = self.tlc(module, cfg, env={"TRACE": cur}, workers=1, dfs=dfs, timeout=soft_timeout or 3600)
                except TLCTimeout:
                    if not soft_timeout:
                        raise
                    # a linearization search that does not finish in time decides nothing: the file is cut into its
                    # recordings, each gets a third of the limit, and only those that still do not finish are
                    # counted as unexamined (evidence), not as a failure of the check
                    if nlines > 0 and not cur.endswith(".single") and sum(1 for x in open(cur) if '"e":"reset"' in x) > 1:
                        for piece in self.split_recordings([cur], 1, keep=True):
                            single = piece + ".single"
                            os.rename(piece, single)
                            rejs.extend(one_single(single))
                        cur = f
                        break
                    self.cov["unexamined_files"] = self.cov.get("unexamined_files", 0) + 1
                    self.notes.append("TLC did not finish %s within %d s: recordings left unexamined" % (os.path.basename(cur), soft_timeout))
                    break
                self.cov["states"] += r["distinct"]
                self.cov["transitions"] += r["generated"]
                if r["error"]:
                    raise Inconclusive("TLC error while validating %s:\n%s" % (cur, r["error"]))
                if r["rejected_at"] is None:
                    break
                at = r["rejected_at"]
                lines = open(cur).read().split("\n")
                if lines and lines[-1] == "":
                    lines.pop()
                # recording that contains line `at` (1-based)
                start = max(i for i in range(min(at, len(lines))) if '"e":"reset"' in lines[i]) if any('"e":"reset"' in l for l in lines[:at]) else 0
                end = next((i for i in range(start + 1, len(lines)) if '"e":"reset"' in lines[i]), len(lines))
                chunk = lines[start:end]
                rejs.append(dict(chunk=chunk, at=at - start, source=f))
                rest = lines[end:]
                if not rest or len(rejs) >= max_rej:
                    break
                prev = cur
                cur = f + ".rest%d" % len(rejs)
                with open(cur, "w") as g:
                    g.write("\n".join(rest) + "\n")
                if prev != f:
                    os.remove(prev)
            if cur != f and os.path.exists(cur):
                os.remove(cur)
            return rejs
        nrec = nev = 0
        for f in files:
            for line in open(f):
                nev += 1
                if '"e":"reset"' in line:
                    nrec += 1
        self.cov["recordings"] += nrec
        self.cov["events"] += nev
        self.cov["traces_validated_against_impl"] += nrec
        with concurrent.futures.ThreadPoolExecutor(max_workers=CORES) as ex:
            res = list(ex.map(one, files))
        return [r for rs in res for r in rs]

    def conformance(self, files, module="TraceWal.tla", cfg="TraceWal.cfg"):
        """Strict mode: recordings with projected implementation state checked against Layer B.
        A mismatch is DRIFT (the code left the model-checked design), never a verdict about the property:
        it is printed, counted in the evidence and the check goes on."""
        saved = {k: self.cov[k] for k in ("recordings", "events", "traces_validated_against_impl")}
        try:
            rejs = self.validate(files, module=module, cfg=cfg, max_rej=4)
        except Inconclusive as e:
            # the conformance stage decides nothing about the property: a TLC error here (for instance a logged
            # state outside the domain of the model's operators) is reported like a mismatch
            self.cov.update(saved)
            what = "Layer-B conformance (%s) could not be evaluated: %s" % (module, str(e)[:300].replace("\n", " "))
            print("DRIFT property=%s %s" % (self.prop, what))
            self.cov.setdefault("layer_b_conformance", {}).setdefault(module, dict(recordings=0, events=0, drift=[]))["drift"].append(what)
            self.cov["drift"] += 1
            return []
        nrec = self.cov["recordings"] - saved["recordings"]
        nev = self.cov["events"] - saved["events"]
        self.cov.update(saved)
        c = self.cov.setdefault("layer_b_conformance", {}).setdefault(module, dict(recordings=0, events=0, drift=[]))
        c["recordings"] += nrec
        c["events"] += nev
        for rej in rejs:
            chunk, at = rej["chunk"], rej["at"]
            try:
                ev = json.loads(chunk[at - 1])
                head = json.loads(chunk[0])
            except Exception:
                ev, head = {}, {}
            what = "recording %s (fs=%s) event #%d (log state after %s) is not a step of Layer B (%s)" % (
                head.get("id"), head.get("fs"), at, ev.get("after"), module)
            print("DRIFT property=%s %s" % (self.prop, what))
            c["drift"].append(what)
            self.cov["drift"] += 1
        return rejs

    def sample_from(self, file, n=2, maxlen=1800):
        """Put the beginning of a few recordings into the evidence samples."""
        cnt = 0
        buf = []
        for line in open(file):
            if '"e":"reset"' in line:
                if buf and cnt <= n:
                    self.cov["samples"].append(buf)
                buf = []
                cnt += 1
                if cnt > n:
                    break
            if len(buf) < 14:
                buf.append(json.loads(line[:maxlen]) if len(line) < maxlen else line[:200] + "...")
        if buf and cnt <= n:
            self.cov["samples"].append(buf)

    # ------------------------------------------------------------------ verdicts
    def report_rejections(self, rejs, describe):
        """describe(rej) -> (signature, text). Matches known findings, writes replay files."""
        kf = load_known()
        for rej in rejs:
            sig, text = describe(rej)
            hit = next((k for k in kf.get("known", []) if k["property"] == self.prop and re.search(k["signature"], sig)), None)
            if hit:
                line = "KNOWN-FINDING: property=%s %s" % (self.prop, hit["what"])
                if line not in self.known:
                    self.known.append(line)
                    print(line)
                self.cov["known"] += 1
                continue
            dig = hashlib.sha1(("\n".join(rej["chunk"])).encode()).hexdigest()[:12]
            rdir = os.path.join(VERIF, "replays") if os.path.realpath(REPO) == "/repo" else os.path.join(tempfile.gettempdir(), "verif-trial-replays")
            os.makedirs(rdir, exist_ok=True)
            path = os.path.join(rdir, "%s-%s.json" % (self.prop, dig))
            with open(path, "w") as f:
                json.dump(dict(property=self.prop, signature=sig, what=text, rejected_at_event=rej["at"],
                               tier=self.tier, seed=self.seed, recording=rej["chunk"]), f)
            self.violations.append((path, text))
            self.cov["rejected"] += 1

    def finish(self, level, rule, explanation=None):
        cov = self.cov
        cov["rule"] = rule
        if explanation:
            cov["explanation"] = explanation
        if not cov["samples"]:
            cov["samples"] = ["(no sample recorded)"]
        cov["notes"] = self.notes[:20]
        ev = dict(property_id=self.prop, tier=self.tier, seed=self.seed, level=level, coverage=cov,
                  assumptions=self.assumptions, wall_s=round(time.time() - self.t0, 2), violations=len(self.violations))
        # evidence/ holds runs against /repo only; trials on scratch worktrees (VERIF_REPO) write elsewhere
        evdir = os.path.join(VERIF, "evidence") if os.path.realpath(REPO) == "/repo" else os.path.join(tempfile.gettempdir(), "verif-trial-evidence")
        os.makedirs(evdir, exist_ok=True)
        with open(os.path.join(evdir, self.prop + ".json"), "w") as f:
            json.dump(ev, f, indent=1)
        for path, text in self.violations:
            print("VIOLATION property=%s replay=%s" % (self.prop, path))
            print("  " + text)
        return 1 if self.violations else 0


def load_known():
    p = os.path.join(VERIF, "known_findings.json")
    if os.path.exists(p):
        with open(p) as f:
            return json.load(f)
    return {}


def describe_generic(rej):
    """Signature of a rejected recording: the kind of the unexplained event and its salient fields."""
    chunk, at = rej["chunk"], rej["at"]
    ev = {}
    try:
        ev = json.loads(chunk[at - 1]) if 0 < at <= len(chunk) else {}
    except Exception:
        pass
    head = {}
    try:
        head = json.loads(chunk[0])
    except Exception:
        pass
    kind = ev.get("e", "?")
    sig = "event=%s" % kind
    if kind == "ret":
        sig += " op=%s err=%s" % (ev.get("op"), ev.get("ek") or ("none" if not ev.get("err") else "other"))
    if kind in ("reopened", "readall", "backup_opened"):
        sig += " err=%s" % ("yes" if ev.get("err") else "none")
        # the image event before it
        for j in range(at - 2, -1, -1):
            try:
                pe = json.loads(chunk[j])
            except Exception:
                continue
            if pe.get("e") == "image":
                sig += " lossy=%s lock=%s" % (pe.get("lossy"), pe.get("lock"))
                break
            if pe.get("e") in ("inv", "ret"):
                break
    text = "recording %s (fs=%s): event #%d not explained by Layer A: %s" % (
        head.get("id"), head.get("fs"), at, json.dumps(ev)[:400])
    return sig, text


def run_check(prop, fn):
    """Entry point used by vcheck: runs fn(ctx) with exit-code discipline."""
    tier = os.environ.get("VERIF_TIER", "quick")
    seed = int(os.environ.get("VERIF_SEED", "1"))
    args = sys.argv[2:]
    i = 0
    while i < len(args):
        if args[i] == "--tier":
            tier = args[i + 1]; i += 2
        elif args[i] == "--seed":
            seed = int(args[i + 1]); i += 2
        else:
            i += 1
    ctx = Ctx(prop, tier, seed)
    try:
        rc = fn(ctx)
    except Inconclusive as e:
        print("INCONCLUSIVE property=%s: %s" % (prop, str(e)[:4000]))
        rc = 2
    except subprocess.TimeoutExpired as e:
        print("INCONCLUSIVE property=%s: timeout %s" % (prop, e))
        rc = 2
    except Exception as e:
        import traceback
        print("INCONCLUSIVE property=%s: internal error of the check: %s" % (prop, traceback.format_exc()[-3000:]))
        rc = 2
    finally:
        ctx.cleanup()
    return rc
