"""Per-property check pipelines."""
import json, os
from common import Ctx, Inconclusive, describe_generic, CORES, VERIF


def shards(ctx, n):
    return [ctx.path("rec-%d.ndjson" % i) for i in range(n)]


def fault_jobs(ctx, mode, nshards, nprog, ops, keys=8, extra=None):
    jobs, outs = [], []
    for i in range(nshards):
        out = ctx.path("rec-%s-%d-%d.ndjson" % (mode, len(os.listdir(ctx.scratch)), i))
        outs.append(out)
        jobs.append(["fault", "-mode", mode, "-n", str(nprog), "-ops", str(ops), "-keys", str(keys),
                     "-seed", str(ctx.seed * 7919 + i * 104729 + 1), "-out", out] + (extra or []))
    return jobs, outs


def add_stats(ctx, stats, label):
    tot = ctx.cov["harness"].setdefault(label, {})
    for st in stats:
        for k, v in st.get("counts", {}).items():
            tot[k] = tot.get(k, 0) + v
    for st in stats[:1]:
        for s in st.get("samples", [])[:1]:
            ctx.cov["samples"].append({"program": s})


def fault_family(ctx, label, mode, nshards, nprog, ops, extra=None, keys=8):
    jobs, outs = fault_jobs(ctx, mode, nshards, nprog, ops, keys, extra)
    stats = ctx.vrun_parallel(jobs)
    add_stats(ctx, stats, label)
    rejs = ctx.validate(outs)
    ctx.sample_from(outs[0], 1)
    return rejs


def regress(ctx, prop=None):
    """Replays the recorded failing programs of the (repaired) defects of this property."""
    f = os.path.join(VERIF, "regress", (prop or ctx.prop) + ".ndjson")
    if not os.path.exists(f):
        return []
    out = ctx.path("rec-regress-%s.ndjson" % (prop or ctx.prop))
    st = ctx.vrun(["regress", "-in", f, "-out", out])
    add_stats(ctx, [st], "regress")
    return ctx.validate([out])


def c03(ctx):
    q = ctx.quick()
    rejs = regress(ctx) + fault_family(ctx, "crash", "crash", CORES, 12 if q else 120, 25, ["-twice"] if not q else [])
    ctx.report_rejections(rejs, describe_generic)
    h = ctx.cov["harness"]["crash"]
    ctx.cov["evaluations"] = h.get("images", 0)
    ctx.cov["distinct_nontrivial"] = h.get("distinct_images", 0)
    ctx.assumptions += ["process-crash model of the property statement: completed fs calls applied, in-flight data write cut at 512-aligned offsets, directory operations atomic",
                        "crashfs (harness/crashfs) implements pogreb's fs.FileSystem faithfully (cross-checked against fs.OS/fs.Mem by C17's differential runs)"]
    return ctx.finish("model_checking", "random single-goroutine programs (put/delete/reads/compact/sync/reopen/close, values up to 2.2 KB spanning sectors, 700-4096 byte segments) on crashfs; "
                      "a crash image before EVERY mutating file-system call plus every 512-aligned cut of an in-flight write, each distinct image reopened by the real code and read back; "
                      "every recording validated by TLC against spec/TraceAbs.tla (Reopened/CrashOK). distinct_nontrivial = distinct (image content, run position) pairs reopened")


FAULT_ASSUME = ["crashfs (harness/crashfs) implements pogreb's fs.FileSystem faithfully (cross-checked against fs.OS/fs.Mem by C17's differential runs)"]
POWER_MODEL = "power-loss model of the property statement: directory operations durable and ordered; file data volatile until Sync on that file; each file keeps its synced content plus an in-order prefix of later writes/truncations, last write cut at a 512-aligned offset"


def c04(ctx):
    q = ctx.quick()
    rejs = regress(ctx) + fault_family(ctx, "crash-epochs", "crash", CORES, 10 if q else 100, 25, ["-epochs", "-twice", "-depth", "1"])
    ctx.report_rejections(rejs, describe_generic)
    h = ctx.cov["harness"]["crash-epochs"]
    ctx.cov["evaluations"] = h.get("images", 0)
    ctx.cov["distinct_nontrivial"] = h.get("distinct_images", 0)
    ctx.assumptions += ["process-crash model of the property statement"] + FAULT_ASSUME
    return ctx.finish("model_checking", "random programs with crashat directives: the run continues INSIDE a crash image (possibly torn) for up to ~5 epochs per program; "
                      "crash images before every mutating call of every session including the recovering Opens themselves (nesting depth 1), every image recovered twice; "
                      "validated by TLC against Layer A (Reopened/CrashOK/Continue, idempotence via img.seen)")


def c06(ctx):
    q = ctx.quick()
    n = 4 if q else 40
    rejs = regress(ctx) + fault_family(ctx, "power", "power", CORES // 2, n, 18, ["-noreopen", "-epochs", "-plimit", "32" if q else "96"])
    rejs += fault_family(ctx, "power-syncw", "power", CORES // 2, n, 18, ["-noreopen", "-epochs", "-syncw", "-plimit", "32" if q else "96"])
    ctx.report_rejections(rejs, describe_generic)
    ha, hb = ctx.cov["harness"]["power"], ctx.cov["harness"]["power-syncw"]
    ctx.cov["evaluations"] = ha.get("images", 0) + hb.get("images", 0)
    ctx.cov["distinct_nontrivial"] = ha.get("distinct_images", 0) + hb.get("distinct_images", 0)
    ctx.assumptions += [POWER_MODEL] + FAULT_ASSUME
    return ctx.finish("model_checking", "random programs (puts/deletes/sync/compact, rollover; both sync modes; runs continue inside power-loss images = 'an earlier recovery') on crashfs; "
                      "at every mutating call the admissible power-loss images (exhaustive product of per-file surviving prefixes when small, else extremes + single-file sweeps + seeded sample) are reopened by the real code; "
                      "validated by TLC against Layer A (LossOK with the per-key durable floor advanced at ret(Sync) / ret(write) in sync mode)")


def c09(ctx):
    q = ctx.quick()
    n = 6 if q else 50
    rejs = regress(ctx) + fault_family(ctx, "closed-power", "power", CORES // 2, n, 16, ["-onlyclosed", "-plimit", "64" if q else "256"])
    rejs += fault_family(ctx, "closed-power-syncw", "power", CORES // 2, n, 16, ["-onlyclosed", "-syncw", "-plimit", "64" if q else "256"])
    ctx.report_rejections(rejs, describe_generic)
    ha, hb = ctx.cov["harness"]["closed-power"], ctx.cov["harness"]["closed-power-syncw"]
    ctx.cov["evaluations"] = ha.get("images", 0) + hb.get("images", 0)
    ctx.cov["distinct_nontrivial"] = ha.get("distinct_images", 0) + hb.get("distinct_images", 0)
    ctx.assumptions += [POWER_MODEL] + FAULT_ASSUME
    return ctx.finish("model_checking", "random programs with clean restarts; power-loss images taken from the return of every Close until the end of the following Open (every mutating call of that Open), all files relevant (no lock file => index and metas are trusted); "
                      "validated by TLC against Layer A (LossOK with the floor at ret(Close) = everything, i.e. exactly the closed contents)")


CHECKS = {"C03": c03, "C04": c04, "C06": c06, "C09": c09}
