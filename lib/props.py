"""Per-property check pipelines."""
import json, os
from common import Ctx, Inconclusive, describe_generic, CORES, VERIF


def shards(ctx, n):
    return [ctx.path("rec-%d.ndjson" % i) for i in range(n)]


def fault_jobs(ctx, mode, nshards, nprog, ops, keys=8, extra=None):
    jobs, outs = [], []
    for i in range(nshards):
        out = ctx.path("rec-%s-%d-%d.ndjson" % (mode, len(os.listdir(ctx.scratch)), i))
        outs.append(out)
        jobs.append(["fault", "-mode", mode, "-n", str(nprog), "-ops", str(ops), "-keys", str(keys),
                     "-seed", str(ctx.seed * 7919 + i * 104729 + 1), "-out", out] + (extra or []))
    return jobs, outs


def add_stats(ctx, stats, label):
    tot = ctx.cov["harness"].setdefault(label, {})
    for st in stats:
        for k, v in st.get("counts", {}).items():
            tot[k] = tot.get(k, 0) + v
    for st in stats[:1]:
        for s in st.get("samples", [])[:1]:
            ctx.cov["samples"].append({"program": s})


def fault_family(ctx, label, mode, nshards, nprog, ops, extra=None, keys=8):
    jobs, outs = fault_jobs(ctx, mode, nshards, nprog, ops, keys, extra)
    stats = ctx.vrun_parallel(jobs)
    add_stats(ctx, stats, label)
    rejs = ctx.validate(outs)
    ctx.sample_from(outs[0], 1)
    return rejs


def c03(ctx):
    q = ctx.quick()
    rejs = fault_family(ctx, "crash", "crash", CORES, 12 if q else 120, 25, ["-twice"] if not q else [])
    ctx.report_rejections(rejs, describe_generic)
    h = ctx.cov["harness"]["crash"]
    ctx.cov["evaluations"] = h.get("images", 0)
    ctx.cov["distinct_nontrivial"] = h.get("distinct_images", 0)
    ctx.assumptions += ["process-crash model of the property statement: completed fs calls applied, in-flight data write cut at 512-aligned offsets, directory operations atomic",
                        "crashfs (harness/crashfs) implements pogreb's fs.FileSystem faithfully (cross-checked against fs.OS/fs.Mem by C17's differential runs)"]
    return ctx.finish("model_checking", "random single-goroutine programs (put/delete/reads/compact/sync/reopen/close, values up to 2.2 KB spanning sectors, 700-4096 byte segments) on crashfs; "
                      "a crash image before EVERY mutating file-system call plus every 512-aligned cut of an in-flight write, each distinct image reopened by the real code and read back; "
                      "every recording validated by TLC against spec/TraceAbs.tla (Reopened/CrashOK). distinct_nontrivial = distinct (image content, run position) pairs reopened")


CHECKS = {"C03": c03}
