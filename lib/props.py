"""Per-property check pipelines."""
import json, os
from common import Ctx, Inconclusive, describe_generic, CORES, VERIF


def shards(ctx, n):
    return [ctx.path("rec-%d.ndjson" % i) for i in range(n)]


def fault_jobs(ctx, mode, nshards, nprog, ops, keys=8, extra=None):
    jobs, outs = [], []
    for i in range(nshards):
        out = ctx.path("rec-%s-%d-%d.ndjson" % (mode, len(os.listdir(ctx.scratch)), i))
        outs.append(out)
        jobs.append(["fault", "-mode", mode, "-n", str(nprog), "-ops", str(ops), "-keys", str(keys),
                     "-seed", str(ctx.seed * 7919 + i * 104729 + 1), "-out", out] + (extra or []))
    return jobs, outs


def add_stats(ctx, stats, label):
    tot = ctx.cov["harness"].setdefault(label, {})
    for st in stats:
        for k, v in st.get("counts", {}).items():
            tot[k] = tot.get(k, 0) + v
    for st in stats[:1]:
        for s in (st.get("samples") or [])[:1]:
            ctx.cov["samples"].append({"program": s})


def fault_family(ctx, label, mode, nshards, nprog, ops, extra=None, keys=8):
    jobs, outs = fault_jobs(ctx, mode, nshards, nprog, ops, keys, extra)
    stats = ctx.vrun_parallel(jobs)
    add_stats(ctx, stats, label)
    rejs = ctx.validate(outs)
    ctx.sample_from(outs[0], 1)
    return rejs


def regress(ctx, prop=None):
    """Replays the recorded failing programs of the (repaired) defects of this property."""
    f = os.path.join(VERIF, "regress", (prop or ctx.prop) + ".ndjson")
    if not os.path.exists(f):
        return []
    out = ctx.path("rec-regress-%s.ndjson" % (prop or ctx.prop))
    st = ctx.vrun(["regress", "-in", f, "-out", out])
    add_stats(ctx, [st], "regress")
    return ctx.validate([out])


def wal_models(ctx, family, pinned):
    """Exhaustive TLC runs of the bounded Wal model: the repaired design must satisfy every invariant,
    each pinned-behaviour config must be refuted (standing non-vacuity test of model + invariants)."""
    ctx.model_check("Wal.tla", "cfg/wal_%s_%s.cfg" % (family, "q" if ctx.quick() else "t"), timeout=3000)
    for d in pinned:
        ctx.model_check("Wal.tla", "cfg/wal_pinned_%s.cfg" % d, expect_violation="*", timeout=900)


def export_behaviours(ctx, module, cfg, label, simulate=None):
    """Runs the behaviour-export spec (exhaustively, or as seeded random walks) and returns the parsed behaviours."""
    import behaviours as B
    out = ctx.path("beh-%s.out" % label)
    extra = ["-simulate", "num=%d" % simulate, "-depth", "45", "-seed", str(ctx.seed)] if simulate else None
    r = ctx.tlc(module, cfg, workers=1, timeout=1800, heap="6g", stdout_file=out, extra=extra)
    if r["error"] or ("Model checking completed" not in r["out"] and not (simulate and "Finished in" in r["out"])):
        raise Inconclusive("behaviour export failed: %s %s\n%s" % (module, cfg, r["out"][-2000:]))
    behs = B.parse(out)
    os.remove(out)
    ctx.cov["model_checks"].append(dict(module=module, cfg=cfg, generated=r["generated"], distinct=r["distinct"], behaviours_exported=len(behs)))
    ctx.cov["states"] += r["distinct"]
    ctx.cov["transitions"] += r["generated"]
    return behs


def wal_replay(ctx, gencfg, label, mode, n, big=False, extra=None, want=None, simulate=None):
    """spec -> code: behaviours of the Wal model, replayed on the real code with fault images."""
    import behaviours as B
    behs = export_behaviours(ctx, "GenWal.tla", "cfg/%s.cfg" % gencfg, label, simulate=simulate)
    if simulate:
        behs = [b for b in behs if len(b) >= 9]
    if want:
        behs = [b for b in behs if want(b)]
    sm = B.sample(behs, n, ctx.seed)
    nsh = CORES
    files = [ctx.path("prog-%s-%d.ndjson" % (label, i)) for i in range(nsh)]
    fh = [open(f, "w") for f in files]
    for i, b in enumerate(sm):
        if big:
            b = [dict(e, v=("v2big" if e.get("v") == "v2" else e.get("v"))) if e["op"] == "put" else e for e in b]
        fh[i % nsh].write(json.dumps(B.wal_program(b, "beh-%s-%d" % (label, i), mode == "power")) + "\n")
    for f in fh:
        f.close()
    jobs, outs = [], []
    for i, f in enumerate(files):
        out = ctx.path("rec-beh-%s-%d.ndjson" % (label, i))
        outs.append(out)
        jobs.append(["fault", "-mode", mode, "-in", f, "-seed", str(ctx.seed * 31 + i), "-out", out] + (extra or []))
    add_stats(ctx, ctx.vrun_parallel(jobs), "behaviours-" + label)
    ctx.cov["samples"].append({"model_behaviour": sm[0], "program": B.wal_program(sm[0], "sample", mode == "power")})
    return ctx.validate(outs)


def lh_replay(ctx, n, mult=16):
    """spec -> code: behaviours of the LHIndex model on the real 31-slot buckets through `fat keys'."""
    import behaviours as B
    behs = export_behaviours(ctx, "GenLH.tla", "cfg/gen_lh_q.cfg" if ctx.quick() else "cfg/gen_lh.cfg", "lh")
    sm = B.sample(behs, n, ctx.seed, minlen=4)
    fk = B.FatKeys(0x9e3779b9)
    nsh = 8
    files = [ctx.path("prog-lh-%d.ndjson" % i) for i in range(nsh)]
    fh = [open(f, "w") for f in files]
    for i, b in enumerate(sm):
        m = (16, 24, 31)[i % 3] if mult is None else mult
        fh[i % nsh].write(json.dumps(B.lh_program(b, "beh-lh-%d" % i, m, fk.keys)) + "\n")
    for f in fh:
        f.close()
    jobs, outs = [], []
    for i, f in enumerate(files):
        out = ctx.path("rec-beh-lh-%d.ndjson" % i)
        outs.append(out)
        jobs.append(["fault", "-mode", "seq", "-probe", "-in", f, "-seed", str(ctx.seed * 31 + i), "-out", out])
    add_stats(ctx, ctx.vrun_parallel(jobs), "behaviours-lh")
    ctx.cov["samples"].append({"model_behaviour": sm[0]})
    return ctx.validate(outs)


def c03(ctx):
    q = ctx.quick()
    wal_models(ctx, "crash", ["D11"])
    rejs = regress(ctx) + fault_family(ctx, "crash", "crash", CORES, 12 if q else 120, 25, ["-twice"] if not q else [])
    rejs += wal_replay(ctx, "gen_wal_crash", "crash", "crash", 200 if q else 4000, big=True)
    if not q:
        rejs += wal_replay(ctx, "gen_wal_sim_crash", "simcrash", "crash", 1500, simulate=1500)
    ctx.report_rejections(rejs, describe_generic)
    h = ctx.cov["harness"]["crash"]
    ctx.cov["evaluations"] = h.get("images", 0)
    ctx.cov["distinct_nontrivial"] = h.get("distinct_images", 0)
    ctx.assumptions += ["process-crash model of the property statement: completed fs calls applied, in-flight data write cut at 512-aligned offsets, directory operations atomic",
                        "crashfs (harness/crashfs) implements pogreb's fs.FileSystem faithfully (cross-checked against fs.OS/fs.Mem by C17's differential runs)"]
    return ctx.finish("model_checking", "random single-goroutine programs (put/delete/reads/compact/sync/reopen/close, values up to 2.2 KB spanning sectors, 700-4096 byte segments) on crashfs; "
                      "a crash image before EVERY mutating file-system call plus every 512-aligned cut of an in-flight write, each distinct image reopened by the real code and read back; "
                      "every recording validated by TLC against spec/TraceAbs.tla (Reopened/CrashOK). distinct_nontrivial = distinct (image content, run position) pairs reopened")


FAULT_ASSUME = ["crashfs (harness/crashfs) implements pogreb's fs.FileSystem faithfully (cross-checked against fs.OS/fs.Mem by C17's differential runs)"]
POWER_MODEL = "power-loss model of the property statement: directory operations durable and ordered; file data volatile until Sync on that file; each file keeps its synced content plus an in-order prefix of later writes/truncations, last write cut at a 512-aligned offset"


def c04(ctx):
    q = ctx.quick()
    wal_models(ctx, "crash", ["D2"])
    if not q:
        ctx.model_check("Wal.tla", "cfg/wal_crash3_t.cfg", timeout=3000)
    rejs = regress(ctx) + fault_family(ctx, "crash-epochs", "crash", CORES // 2, 10 if q else 100, 25, ["-epochs", "-twice", "-depth", "1"])
    rejs += fault_family(ctx, "crash-epochs-failopen", "crash", CORES // 2, 10 if q else 100, 25, ["-epochs", "-failopen"])
    # strict mode: simulated unclean shutdowns (garbage appended, bytes cut off) and recovery, with the rebuilt index and
    # the re-derived segment meta data checked against Layer B (DRIFT only) and the recordings against Layer A
    rejs += ctx.validate(strict_wal(ctx, "recover-strict", 4 if q else 16, 3, 150, 24, ALLFS, ["-tear"]))
    rejs += wal_replay(ctx, "gen_wal_crash5", "crash5", "crash", 200 if q else 4000, extra=["-twice", "-depth", "1"],
                       want=lambda b: sum(1 for e in b if e["op"] in ("crash", "tornput")) >= 1)
    if not q:
        rejs += wal_replay(ctx, "gen_wal_sim_crash", "simcrash", "crash", 1500, extra=["-twice", "-depth", "1"], simulate=1500,
                           want=lambda b: sum(1 for e in b if e["op"] in ("crash", "tornput")) >= 2)
    ctx.report_rejections(rejs, describe_generic)
    hs = [v for k, v in ctx.cov["harness"].items() if k.startswith("crash") or k.startswith("behaviours")]
    ctx.cov["evaluations"] = sum(h.get("images", 0) for h in hs)
    ctx.cov["distinct_nontrivial"] = sum(h.get("distinct_images", 0) for h in hs)
    ctx.assumptions += ["process-crash model of the property statement"] + FAULT_ASSUME
    return ctx.finish("model_checking", "random programs with crashat directives: the run continues INSIDE a crash image (possibly torn) for up to ~5 epochs per program; "
                      "crash images before every mutating call of every session including the recovering Opens themselves (nesting depth 1), every image recovered twice; "
                      "validated by TLC against Layer A (Reopened/CrashOK/Continue, idempotence via img.seen)")


def c06(ctx):
    q = ctx.quick()
    wal_models(ctx, "power", ["D3a", "D3b", "D9"])
    # the oracle itself: Layer A accepts an ideal implementation in every interleaving, incl. its power-loss images
    ctx.model_check("AbsModel.tla", "cfg/abs_model_syncw.cfg" if q else "cfg/abs_model.cfg", workers=8, timeout=3000)
    n = 4 if q else 40
    rejs = regress(ctx) + fault_family(ctx, "power", "power", CORES // 2, n, 18, ["-noreopen", "-epochs", "-plimit", "32" if q else "96"])
    rejs += fault_family(ctx, "power-syncw", "power", CORES // 2, n, 18, ["-noreopen", "-epochs", "-syncw", "-plimit", "32" if q else "96"])
    rejs += fault_family(ctx, "power-compact", "power", CORES // 2, n, 30, ["-noreopen", "-compactheavy", "-plimit", "12" if q else "48"], keys=12)
    rejs += fault_family(ctx, "power-compact-syncw", "power", CORES // 2, n, 30, ["-noreopen", "-compactheavy", "-syncw", "-plimit", "12" if q else "48"], keys=12)
    rejs += wal_replay(ctx, "gen_wal_power", "power", "power", 120 if q else 2500, extra=["-plimit", "32"], want=lambda b: any(e["op"] == "sync" for e in b))
    if not q:
        rejs += wal_replay(ctx, "gen_wal_sim_power", "simpower", "power", 800, extra=["-plimit", "24"], simulate=1500, want=lambda b: any(e["op"] == "sync" for e in b))
    ctx.report_rejections(rejs, describe_generic)
    hs = [v for k, v in ctx.cov["harness"].items() if k.startswith("power") or k.startswith("behaviours")]
    ctx.cov["evaluations"] = sum(h.get("images", 0) for h in hs)
    ctx.cov["distinct_nontrivial"] = sum(h.get("distinct_images", 0) for h in hs)
    ctx.assumptions += [POWER_MODEL] + FAULT_ASSUME
    return ctx.finish("model_checking", "random programs (puts/deletes/sync/compact, rollover; both sync modes; runs continue inside power-loss images = 'an earlier recovery') on crashfs; "
                      "at every mutating call the admissible power-loss images (exhaustive product of per-file surviving prefixes when small, else extremes + single-file sweeps + seeded sample) are reopened by the real code; "
                      "validated by TLC against Layer A (LossOK with the per-key durable floor advanced at ret(Sync) / ret(write) in sync mode)")


def c09(ctx):
    q = ctx.quick()
    wal_models(ctx, "power", ["D4"])
    n = 6 if q else 50
    rejs = regress(ctx) + fault_family(ctx, "closed-power", "power", CORES // 2, n, 16, ["-onlyclosed", "-plimit", "64" if q else "256"])
    rejs += fault_family(ctx, "closed-power-syncw", "power", CORES // 2, n, 16, ["-onlyclosed", "-syncw", "-plimit", "64" if q else "256"])
    rejs += fault_family(ctx, "closed-power-sessions", "power", CORES // 2, n, 40, ["-onlyclosed", "-sessions", "-compactheavy", "-plimit", "64" if q else "256"], keys=12)
    rejs += wal_replay(ctx, "gen_wal_power", "closed", "power", 120 if q else 2500, extra=["-onlyclosed", "-plimit", "64"], want=lambda b: any(e["op"] == "close" for e in b))
    ctx.report_rejections(rejs, describe_generic)
    hs = [v for k, v in ctx.cov["harness"].items() if k.startswith("closed") or k.startswith("behaviours")]
    ctx.cov["evaluations"] = sum(h.get("images", 0) for h in hs)
    ctx.cov["distinct_nontrivial"] = sum(h.get("distinct_images", 0) for h in hs)
    ctx.assumptions += [POWER_MODEL] + FAULT_ASSUME
    return ctx.finish("model_checking", "random programs with clean restarts; power-loss images taken from the return of every Close until the end of the following Open (every mutating call of that Open), all files relevant (no lock file => index and metas are trusted); "
                      "validated by TLC against Layer A (LossOK with the floor at ret(Close) = everything, i.e. exactly the closed contents)")


ALLFS = ("crashfs", "mem", "os", "osmmap")


def seq_jobs(ctx, label, nshards, nprog, ops, keys, fss=("crashfs",), extra=None):
    jobs, outs = [], []
    os.makedirs(ctx.path("tmp"), exist_ok=True)
    for i in range(nshards):
        fsn = fss[i % len(fss)]
        out = ctx.path("rec-%s-%d.ndjson" % (label, i))
        outs.append(out)
        jobs.append(["seq", "-fs", fsn, "-n", str(nprog), "-ops", str(ops), "-keys", str(keys), "-dir", ctx.path("tmp"),
                     "-seed", str(ctx.seed * 7919 + i * 104729 + 1), "-out", out] + (extra or []))
    stats = ctx.vrun_parallel(jobs)
    add_stats(ctx, stats, label)
    return outs


def strict_wal(ctx, label, nshards, nprog, ops, keys, fss=("crashfs", "os"), extra=None):
    """Strict mode: programs recorded WITH the projected state of the write-ahead log after every call.
    The recordings are checked against Layer B (spec/TraceWal.tla; a mismatch is DRIFT, reported in the evidence
    only) and returned so that the caller validates them against Layer A like any other recording."""
    outs = seq_jobs(ctx, label, nshards, nprog, ops, keys, fss, ["-walstates"] + (extra or []))
    ctx.conformance(outs, "TraceWal.tla", "TraceWal.cfg")
    ctx.conformance(outs, "TraceLH.tla", "TraceLH.cfg")
    return outs


def lh_models(ctx):
    ctx.model_check("LHIndex.tla", "cfg/lh_q.cfg" if ctx.quick() else "cfg/lh_t.cfg", timeout=3000)
    if not ctx.quick():
        ctx.model_check("LHIndex.tla", "cfg/lh_t3.cfg", timeout=3000)
    ctx.model_check("LHIndex.tla", "cfg/lh_pinned_D1.cfg", expect_violation="*", timeout=600)


def c01(ctx):
    q = ctx.quick()
    lh_models(ctx)
    outs = seq_jobs(ctx, "seq-small", 4, 6 if q else 40, 60, 10, ("crashfs", "mem", "os", "osmmap"))
    outs += seq_jobs(ctx, "seq-chains", 12, 3 if q else 20, 260 if q else 500, 72, ("crashfs", "crashfs", "osmmap", "mem", "os", "crashfs"))
    outs += seq_jobs(ctx, "seq-long-chains", 4, 2 if q else 16, 400, 170, ("crashfs", "osmmap", "mem", "os"), ["-oneclass"])
    outs += strict_wal(ctx, "seq-strict", 4 if q else 12, 3, 200, 72, ALLFS)
    rejs = regress(ctx) + ctx.validate(outs) + lh_replay(ctx, 60 if q else 1500, mult=None)
    ctx.sample_from(outs[0], 1)
    ctx.report_rejections(rejs, describe_generic)
    h = ctx.cov["harness"]
    ctx.cov["evaluations"] = sum(h[k].get("ops", 0) for k in ("seq-small", "seq-chains", "seq-long-chains"))
    ctx.cov["distinct_nontrivial"] = sum(h[k].get("programs", 0) for k in ("seq-small", "seq-chains", "seq-long-chains", "behaviours-lh"))
    ctx.assumptions += ["key sets engineered with an independent MurmurHash3 copy under a pinned hash seed (hook VerifPinnedSeed): 1-2 low-bit classes (chains of 2-4 buckets) plus pairs with identical 32-bit hashes"]
    return ctx.finish("model_checking", "random single-goroutine programs (fill, delete/re-put churn, reads, Sync, Compact, clean restarts) over 10 keys (full read-back after every write) and over ~80 colliding keys "
                      "(Count + Get probe after every write, full read-back incl. Has and a full Items scan every 25 operations and at the end) on crashfs, fs.Mem, fs.OS and fs.OSMMap with 2-64 KB segments; "
                      "every recording validated by TLC against Layer A (Lin/RetOk/ReadAll). distinct_nontrivial = programs")


def c05(ctx):
    q = ctx.quick()
    wal_models(ctx, "crash", ["D8"])
    rejs = regress(ctx) + fault_family(ctx, "compact-inject-crash", "crash", CORES, 10 if q else 80, 40, ["-inject", "-keys", "6"])
    rejs += wal_replay(ctx, "gen_wal_crash5", "compact", "crash", 250 if q else 5000, want=lambda b: any(e["op"] == "pick" for e in b))
    if not q:
        rejs += wal_replay(ctx, "gen_wal_sim_crash", "simcompact", "crash", 1500, simulate=1500, want=lambda b: any(e["op"] == "pick" for e in b))
    ctx.report_rejections(rejs, describe_generic)
    h = ctx.cov["harness"]["compact-inject-crash"]
    ctx.cov["evaluations"] = h.get("images", 0)
    ctx.cov["distinct_nontrivial"] = h.get("distinct_images", 0)
    ctx.assumptions += ["a writer placed at a yield point of Compact by the hook runs on the compacting goroutine while it holds no database lock; this is observationally a second goroutine scheduled exactly there"] + FAULT_ASSUME
    return ctx.finish("model_checking", "random programs whose Compact calls have writers (put/delete/get/full read-back) injected at random subsets of the yield points of compaction "
                      "(after the pick, before each seal, before EVERY record, before each removal) via the verif hook; crash images at every mutating call inside and outside Compact, reopened by the real code; "
                      "validated by TLC against Layer A (Compact has no logical effect, ReadAll during compaction, CrashOK). The Wal model interleaves Put/Del with Pick/Seal/Step/Remove exhaustively")


def c02(ctx):
    q = ctx.quick()
    wal_models(ctx, "crash", ["D11"])
    outs = seq_jobs(ctx, "restart-alt", 8, 8 if q else 40, 300, 64, ("os", "osmmap"), ["-alt", "-sessions"])
    outs += seq_jobs(ctx, "restart", 8, 8 if q else 40, 300, 64, ALLFS, ["-alt", "-sessions", "-nopin"])
    outs += strict_wal(ctx, "restart-strict", 4 if q else 16, 3, 150, 24, ALLFS, ["-sessions"])
    rejs = regress(ctx) + ctx.validate(outs)
    ctx.sample_from(outs[0], 1)
    ctx.report_rejections(rejs, describe_generic)
    h = ctx.cov["harness"]
    ctx.cov["evaluations"] = sum(h[k].get("ops", 0) for k in ("restart-alt", "restart"))
    ctx.cov["distinct_nontrivial"] = sum(h[k].get("programs", 0) for k in ("restart-alt", "restart"))
    return ctx.finish("model_checking", "random histories over ~70 colliding keys (overflow chains, splits, free list, rollover, compaction) cut into sessions by Close/Open at random positions (about every 8th operation, including back-to-back restarts without writes); "
                      "half of the runs alternate fs.OS and fs.OSMMap between sessions on the same directory; after every reopen: full read-back, Count, Has, Items and the recovery indicator; "
                      "validated by TLC against Layer A (OpenClean: contents equal, recovered = FALSE). Wal model: Close/OpenClean with persisted Full flags, exhaustive")


def c11(ctx):
    q = ctx.quick()
    lh_models(ctx)
    # a scan interleaved with writers on the model: truthful and complete for untouched keys;
    # an iterator that caches the bucket count at creation must be refuted
    # the address arithmetic behind the scan's monotonicity argument, for real-sized levels and hashes
    ctx.model_check("LHArith.tla", "cfg/lharith.cfg", workers=1, timeout=1800)
    ctx.model_check("LHScan.tla", "cfg/lhscan.cfg", timeout=3000)
    ctx.model_check("LHScan.tla", "cfg/lhscan_cached.cfg", expect_violation="CompleteForUntouched", timeout=900)
    outs = seq_jobs(ctx, "scan-steps", 12, 3 if q else 24, 300, 90, ALLFS, ["-scans"])
    outs += seq_jobs(ctx, "scan-steps-compact", 4, 3 if q else 24, 200, 40, ("crashfs", "osmmap"), ["-scans", "-inject"])
    rejs = regress(ctx, "C01") + ctx.validate(outs)
    ctx.sample_from(outs[0], 1)
    ctx.report_rejections(rejs, describe_generic)
    h = ctx.cov["harness"]
    ctx.cov["evaluations"] = sum(h[k].get("ops", 0) for k in ("scan-steps", "scan-steps-compact"))
    ctx.cov["distinct_nontrivial"] = sum(h[k].get("programs", 0) for k in ("scan-steps", "scan-steps-compact"))
    return ctx.finish("model_checking", "quiescent scans: a full Items scan in every read-back of C01-style histories (each live key exactly once, done on every further call). "
                      "Concurrent scans: iterators stepped call by call (1-4 Next calls, then 0-2 writes, repeated; then drained) while puts over ~100 colliding keys split the chain under the cursor, deletes shift slots and compaction repoints them; "
                      "validated by TLC against Layer A (ScanStart/ScanRet/ScanDone: truthful pairs, complete for untouched keys, exact when nobody wrote). LHIndex model: ScanExact and SplitMovesForward for every hash assignment")


def c12(ctx):
    q = ctx.quick()
    # Layer B: Backup (capture under the read lock, lock-free copies up to the captured offsets) interleaved with
    # writers, rollover, compaction before/after and crashes; three variants of the algorithm must be refuted
    ctx.model_check("WalBackup.tla", "cfg/wal_backup_q.cfg" if q else "cfg/wal_backup_m.cfg", timeout=3000)
    if not q:
        ctx.model_check("WalBackup.tla", "cfg/wal_backup_t.cfg", timeout=5000)
    ctx.model_check("WalBackup.tla", "cfg/wal_backup_whole.cfg", expect_violation="BackupOK", timeout=900)
    ctx.model_check("WalBackup.tla", "cfg/wal_backup_listlate.cfg", expect_violation="BackupOK", timeout=900)
    ctx.model_check("WalBackup.tla", "cfg/wal_backup_nomaint.cfg", expect_violation="*", timeout=900)
    outs = seq_jobs(ctx, "backup-inject", 12, 3 if q else 24, 120, 24, ALLFS, ["-backup"])
    outs += stress_jobs(ctx, "backup-concurrent", 8, 6 if q else 80, 30, 40, ALLFS, ["-maint", "-grow"], workers=2)
    rejs = ctx.validate(outs, dfs=True, soft_timeout=180 if q else 600)
    ctx.sample_from(outs[0], 1)
    ctx.report_rejections(rejs, describe_generic)
    h = ctx.cov["harness"]
    ctx.cov["evaluations"] = h["backup-inject"].get("ops", 0) + ctx.cov["events"]
    ctx.cov["distinct_nontrivial"] = h["backup-inject"].get("programs", 0) + h["backup-concurrent"].get("histories", 0)
    ctx.assumptions += ["a writer placed at a yield point of Backup by the hook runs on the goroutine executing Backup while it holds no database lock (it holds the maintenance lock, which writers do not take)"]
    return ctx.finish("model_checking", "random histories whose Backup calls have writers (puts with rollover, deletes, reads) injected at the yield points of Backup (after the size capture, before every segment copy, before the lock file is created); "
                      "every backup directory is then opened by the real code and read back, the source is read back too; on crashfs, fs.Mem, fs.OS, fs.OSMMap; "
                      "validated by TLC against Layer A (Backup linearizes once between call and return, BackupOpened = contents at that instant)")


def stress_jobs(ctx, label, nshards, nhist, ops, keys, fss, extra=None, race=False, workers=4):
    import concurrent.futures
    jobs, outs = [], []
    for i in range(nshards):
        fsn = fss[i % len(fss)]
        out = ctx.path("rec-%s-%d.ndjson" % (label, i))
        outs.append(out)
        jobs.append(["stress", "-fs", fsn, "-n", str(nhist), "-ops", str(ops), "-keys", str(keys), "-workers", str(workers), "-dir", ctx.path("tmp"),
                     "-seed", str(ctx.seed * 7919 + i * 104729 + 1), "-out", out] + (extra or []))
    if race:
        ctx.build(race=True)
        import concurrent.futures
        def one(ja):
            j, a = ja
            return ctx.vrun(a, race=True, allow_crash=True, env={"GORACE": "halt_on_error=0 exitcode=0 log_path=%s" % ctx.path("race-%s-%d" % (label, j))})
        with concurrent.futures.ThreadPoolExecutor(max_workers=CORES) as ex:
            stats = list(ex.map(one, enumerate(jobs)))
    else:
        with concurrent.futures.ThreadPoolExecutor(max_workers=CORES) as ex:
            stats = list(ex.map(lambda a: ctx.vrun(a, allow_crash=True), jobs))
    add_stats(ctx, stats, label)
    ctx.crashes = getattr(ctx, "crashes", []) + [(jobs[i], st["crash"]) for i, st in enumerate(stats) if st.get("crash")]
    # a crashed driver leaves a truncated recording: validate only complete files
    return [o for i, o in enumerate(outs) if not stats[i].get("crash")]


def c07(ctx):
    q = ctx.quick()
    if not q:
        ctx.model_check("AbsModel.tla", "cfg/abs_model.cfg", workers=8, timeout=3000)
    outs = stress_jobs(ctx, "stress", 12, 20 if q else 300, 14, 4, ALLFS, ["-maint", "-syncw"], workers=3)
    outs += stress_jobs(ctx, "stress-bg", 4, 10 if q else 150, 14, 3, ("osmmap", "os", "mem", "crashfs"), ["-maint", "-bg"], workers=3)
    outs += stress_jobs(ctx, "stress-grow", 16, 4 if q else 40, 120, 800, ALLFS, ["-maint", "-grow", "-syncw"], workers=3)
    # reads of segment/index files yield or sleep briefly BEFORE touching the file: under the code's locking this only
    # changes timing; it widens any window in which a reader works on a file without the lock that excludes compaction
    outs += stress_jobs(ctx, "stress-slowfs", 8, 10 if q else 150, 14, 4, ALLFS, ["-maint", "-slowfs"], workers=3)
    jobs, o2 = fault_jobs(ctx, "seq", 4, 6 if q else 60, 50, 5, ["-inject"])
    add_stats(ctx, ctx.vrun_parallel(jobs), "compact-inject")
    rejs = ctx.validate(outs + o2, dfs=True, soft_timeout=180 if q else 600)
    ctx.sample_from(outs[0], 1)
    ctx.report_rejections(rejs, describe_generic)
    h = ctx.cov["harness"]
    ctx.cov["evaluations"] = ctx.cov["events"]
    ctx.cov["distinct_nontrivial"] = h["stress"].get("histories", 0) + h["stress-bg"].get("histories", 0) + h["stress-grow"].get("histories", 0) + h["stress-slowfs"].get("histories", 0) + h["compact-inject"].get("programs", 0)
    ctx.assumptions += ["invocation events are logged before the call starts and response events after it returned, under one mutex: the order of the lines respects real time, so any linearization point lies between them",
                        "no hook marks linearization points: TLC searches them (silent Lin steps), a differently structured correct implementation cannot be rejected"]
    return ctx.finish("model_checking", "free-running histories: 2-5 goroutines x 14 Put/Delete/Get/GetAppend/Has/Count calls on 3-4 hot keys with per-producer values, plus a goroutine running Compact, Sync, Backup, whole Items scans, Count, FileSize, Metrics, "
                      "half of the bg runs with the background sync/compaction workers at 2-3 ms; on crashfs, fs.Mem, fs.OS, fs.OSMMap; plus deterministic histories with writers forced into the lock-release windows of Compact through the yield hook; "
                      "TLC searches linearization points against Layer A (Inv / silent Lin / Ret), final quiescent read-back and clean reopen compared exactly")


def race_reports(ctx):
    """Parses the Go race detector's reports into signatures (the pogreb frames of both accesses)."""
    import glob, re
    sigs = {}
    for f in glob.glob(ctx.path("race-*")):
        txt = open(f, errors="replace").read()
        for block in txt.split("WARNING: DATA RACE")[1:]:
            frames = re.findall(r"^\s+(github\.com/akrylysov/pogreb[^\s(]*)\(.*\n\s+(\S+?):(\d+)", block, re.M)
            top = []
            for part in re.split(r"\n\n", block)[:2]:
                m = re.search(r"^\s+(github\.com/akrylysov/pogreb[^\s(]*)\(.*\n\s+\S*?/((?:fs/)?[\w.]+\.go):(\d+)", part, re.M)
                if m:
                    top.append("%s@%s" % (m.group(1).split("pogreb")[-1].lstrip("/."), m.group(2)))
            sig = " <-> ".join(sorted(top)) or "unparsed"
            sigs.setdefault(sig, block[:1500])
    return sigs


def closerace_jobs(ctx, nshards, nhist):
    """A Close / a compaction started at the moment a reader is inside its critical section reading a value of several
    MiB, on a file system whose windows become inaccessible when the file is closed (as fs.OSMMap's do)."""
    jobs, outs = [], []
    for i in range(nshards):
        out = ctx.path("rec-closerace-%d.ndjson" % i)
        outs.append(out)
        jobs.append(["closerace", "-n", str(nhist), "-seed", str(ctx.seed * 7919 + i * 104729 + 1), "-out", out])
    stats = []
    import concurrent.futures
    with concurrent.futures.ThreadPoolExecutor(max_workers=4) as ex:
        stats = list(ex.map(lambda a: ctx.vrun(a, allow_crash=True), jobs))
    add_stats(ctx, stats, "closerace")
    ctx.crashes = getattr(ctx, "crashes", []) + [(jobs[i], st["crash"]) for i, st in enumerate(stats) if st.get("crash")]
    return [o for i, o in enumerate(outs) if not stats[i].get("crash")]


def c10(ctx):
    q = ctx.quick()
    # design level: the lock discipline (DB.mu, maintenanceMu, iterator mutex, closeWg) has no deadlock and terminates;
    # a Close that takes DB.mu before waiting for the worker must deadlock (non-vacuity)
    ctx.model_check("Locks.tla", "cfg/locks.cfg", workers=8, timeout=1800)
    ctx.model_check("Locks.tla", "cfg/locks_bad.cfg", workers=8, expect_violation="Deadlock", timeout=1800)
    outs = stress_jobs(ctx, "race-stress", 12, 8 if q else 120, 14, 4, ("mem", "os", "osmmap"), ["-maint", "-closemid", "-bg"], race=True, workers=3)
    outs += stress_jobs(ctx, "close-race", 4, 20 if q else 200, 10, 3, ALLFS, ["-maint", "-closemid"], workers=3)
    outs += stress_jobs(ctx, "race-grow", 4, 2 if q else 30, 120, 800, ("osmmap", "mem", "os", "osmmap"), ["-maint", "-grow"], race=True, workers=3)
    outs += stress_jobs(ctx, "close-vs-held-worker", 4, 6 if q else 60, 10, 3, ALLFS, ["-maint", "-holdbg"], workers=2)
    outs += closerace_jobs(ctx, 4, 6 if q else 60)
    # error paths: Compact / Sync fail with an injected file-system error at a seeded call; the next call must return
    # (a lock left behind would hang it: `stuck' event from the watchdog) and the contents must be untouched
    jobs5, outs5 = fault_jobs(ctx, "seq", 4, 6 if q else 60, 60, 10, ["-failmaint", "-compactheavy"])
    add_stats(ctx, ctx.vrun_parallel(jobs5), "failed-maintenance")
    outs += outs5
    races = race_reports(ctx)
    extra = ctx.path("rec-race-events.ndjson")
    with open(extra, "w") as f:
        for sig, rep in sorted(races.items()):
            f.write(json.dumps({"e": "reset", "syncw": False, "strict": False, "bg": False, "dur": False, "id": "race-detector", "fs": "-"}) + "\n")
            f.write(json.dumps({"e": "race", "sig": sig, "report": rep}) + "\n")
        for job, crash in getattr(ctx, "crashes", []):
            fsn = job[job.index("-fs") + 1]
            f.write(json.dumps({"e": "reset", "syncw": False, "strict": False, "bg": False, "dur": False, "id": "process-died", "fs": fsn, "job": job}) + "\n")
            f.write(json.dumps({"e": "fault", "what": crash, "fs": fsn}) + "\n")
    ctx.cov["race_reports"] = len(races)
    ctx.cov["process_crashes"] = len(getattr(ctx, "crashes", []))
    rejs = ctx.validate(outs + ([extra] if races or getattr(ctx, "crashes", []) else []), dfs=True, soft_timeout=180 if q else 600)
    ctx.sample_from(outs[0], 1)

    def describe(rej):
        sig, text = describe_generic(rej)
        try:
            ev = json.loads(rej["chunk"][rej["at"] - 1])
            if ev.get("e") == "race":
                return "event=race " + ev["sig"], "data race reported by the Go race detector: " + ev["sig"]
            if ev.get("e") in ("stuck", "leak", "fault"):
                return "event=" + ev["e"], "%s: %s" % (ev["e"], ev.get("what", "")[:600])
        except Exception:
            pass
        return sig, text
    ctx.report_rejections(rejs, describe)
    h = ctx.cov["harness"]
    ctx.cov["evaluations"] = ctx.cov["events"]
    ctx.cov["distinct_nontrivial"] = sum(h[k].get("histories", 0) for k in ("race-stress", "close-race", "race-grow", "close-vs-held-worker", "closerace"))
    ctx.assumptions += ["data races and memory faults are not expressible in TLA+: they are observed by the Go race detector / SetPanicOnFault on these schedules and enter the recording as events no Layer-A action accepts; completeness is that of the schedules run"]
    return ctx.finish("model_checking", "free-running histories built with -race: workers + maintenance goroutine (Compact, Sync, Backup, scans, FileSize, Metrics) + background workers, Close fired at a random point of half of the histories; "
                      "panics -> fault events, 60 s without progress -> stuck event with goroutine dump, goroutines inside pogreb after Close returned -> leak event, race-detector reports -> race events; "
                      "TLC validates against Layer A: results of calls overlapping Close must be an error or a legal linearized effect, the directory reopens with exactly the linearized contents; fault/stuck/leak/race events are never accepted")


def describe_lock(rej):
    """Signature of a rejected lock recording."""
    chunk, at = rej["chunk"], rej["at"]
    evs = []
    for l in chunk[:at]:
        try:
            evs.append(json.loads(l))
        except Exception:
            evs.append({})
    ev = evs[-1] if evs else {}
    head = evs[0] if evs else {}
    sig = "event=%s" % ev.get("e")
    text = "schedule %s scripts=%s sched=%s: event #%d not explained: %s" % (head.get("id"), head.get("scripts"), head.get("sched"), at, json.dumps(ev)[:300])
    if ev.get("e") == "lk_ret" and ev.get("op") == "open":
        p = ev.get("p")
        if ev.get("ok") and not ev.get("existing"):
            # which other sessions started and died while this Open call was in progress?
            inv = max((i for i, e in enumerate(evs[:-1]) if e.get("e") == "lk_inv" and e.get("p") == p and e.get("op") == "open"), default=0)
            between = evs[inv:-1]
            started = {e.get("p") for e in between if e.get("e") == "lk_ret" and e.get("op") == "open" and e.get("ok") and e.get("p") != p}
            died = {e.get("p") for e in between if e.get("e") == "lk_die"}
            if started & died:
                sig = "missed-recovery open-overlaps-whole-dead-session"
            else:
                sig = "missed-recovery"
        elif ev.get("ok"):
            sig = "open-ok-unexplained (second holder or needless recovery)"
        else:
            sig = "open-failed-unexplained ek=%s" % ev.get("ek")
    return sig, text


def c13(ctx):
    q = ctx.quick()
    ctx.model_check("LockProto.tla", "cfg/lock_verify.cfg" if q else "cfg/lock_verify_deaths.cfg", timeout=1800)
    ctx.model_check("LockProto.tla", "cfg/lock_pinned.cfg", expect_violation="AtMostOneHolder", timeout=600)
    ctx.model_check("LockProto.tla", "cfg/lock_verify_recover.cfg", expect_violation="MustRecover", timeout=600)
    # exit paths of Close: a Close that fails keeps the lock file, so the next Open recovers; one that removes it must be refuted
    ctx.model_check("WalClose.tla", "cfg/wal_close_q.cfg" if q else "cfg/wal_close_t.cfg", timeout=3000)
    ctx.model_check("WalClose.tla", "cfg/wal_close_unlocks.cfg", expect_violation="Represents", timeout=600)
    os.makedirs(ctx.path("tmp/lk"), exist_ok=True)
    nsh = CORES
    jobs, outs = [], []
    for i in range(nsh):
        out = ctx.path("rec-lock-%d.ndjson" % i)
        outs.append(out)
        jobs.append(["lock", "-n", "500" if q else "6000", "-workers", str(nsh), "-shard", str(i), "-keys", "0", "-dir", ctx.path("tmp/lk"),
                     "-seed", str(ctx.seed), "-out", out])
    add_stats(ctx, ctx.vrun_parallel(jobs), "lock-schedules")
    ctx.sample_from(outs[0], 2)
    rejs = ctx.validate(outs, module="TraceLock.tla", cfg="TraceLock.cfg", max_rej=60 if q else 400, per_piece=None if q else 400)
    # database level: sequential session chains (clean / unclean ends, competing Open while open)
    outs2 = seq_jobs(ctx, "db-sessions", 4, 4 if q else 30, 60, 8, ALLFS, ["-alt", "-open2"])
    jobs3, outs3 = fault_jobs(ctx, "crash", 4, 4 if q else 30, 20, 6, ["-epochs", "-open2", "-failopen"])
    add_stats(ctx, ctx.vrun_parallel(jobs3), "db-crash-chains")
    # sessions whose Close fails half-way with an injected file-system error (the process exits, the directory is
    # opened again): a session that did not complete Close is recovered, whatever Close did before it failed
    jobs4, outs4 = fault_jobs(ctx, "seq", 4, 6 if q else 60, 60, 10, ["-sessions", "-failclose"])
    add_stats(ctx, ctx.vrun_parallel(jobs4), "db-failed-close")
    rejs2 = ctx.validate(outs2 + outs3 + outs4)
    ctx.report_rejections(rejs, describe_lock)
    ctx.report_rejections(rejs2, describe_generic)
    h = ctx.cov["harness"]
    ctx.cov["evaluations"] = h["lock-schedules"].get("schedules", 0)
    ctx.cov["distinct_nontrivial"] = h["lock-schedules"].get("schedules", 0)
    ctx.assumptions += ["flock conflicts between separate open file descriptions of one process, so the processes of the model are goroutines parked at the yield hooks between the system calls of fs/os_unix.go and fs/os.go",
                        "a process death is the kernel closing the descriptor (flock released, file left behind)"]
    return ctx.finish("model_checking", "LockProto.tla: every interleaving of stat/open/flock/verify/unlink/close (and deaths) of 3 processes x 2 rounds, exhaustive; pinned protocol refuted. "
                      "Real code: the enumerated interleavings of the system-call steps of 2-3 openers with a closing or dying holder (5 scenarios; quick: a seeded sample of 500 per scenario, thorough: 6000 per scenario - all of them would be 1.5 M schedules) executed in-process on a real directory through the yield hooks; "
                      "each schedule's open/close/die results validated by TLC as a linearizable lock object (TraceLock.tla: at most one owner, unclean => recovered). "
                      "Database level: sequential session chains on all file systems with clean and unclean ends and competing Opens (locked error, directory listing unchanged), validated against Layer A")


def framing_jobs(ctx, label, nshards, n, extra=None):
    jobs, outs = [], []
    for i in range(nshards):
        out = ctx.path("rec-%s-%d.ndjson" % (label, i))
        outs.append(out)
        jobs.append(["framing", "-n", str(n), "-seed", str(ctx.seed * 7919 + i * 104729 + 1), "-out", out] + (extra or []))
    add_stats(ctx, ctx.vrun_parallel(jobs), label)
    return outs


def c08(ctx):
    q = ctx.quick()
    ctx.model_check("Framing.tla", "cfg/framing.cfg", workers=4, timeout=600)
    outs = framing_jobs(ctx, "tails", 8, 150 if q else 4000)
    rejs = ctx.validate(outs, module="TraceFraming.tla", cfg="TraceFraming.cfg")
    ctx.sample_from(outs[0], 2, maxlen=4000)
    ctx.report_rejections(rejs, describe_generic)
    h = ctx.cov["harness"]["tails"]
    ctx.cov["evaluations"] = h.get("cases", 0)
    ctx.cov["distinct_nontrivial"] = h.get("cases", 0)
    ctx.assumptions += ["the records a database holds before the damage are read by an independent decoder written from docs/design.md (harness/h/decoder.go), never by pogreb's own iterator",
                        "single-bit flips are confined to key, value and checksum bytes when labelled badcrc (CRC-32 detects every single-bit error); damaged length fields are labelled by construction (claim vs bytes present)"]
    return ctx.finish("exploration", "databases of 3-16 records over 1-8 segments (1-8 KB) written by the real code, closed, one segment (newest or older) damaged: cut inside a record, one flipped bit in key/value/checksum, 1-4096 zero bytes, 1-5 garbage bytes, "
                      "a checksum-damaged record followed by a well-formed one, a header claiming more than is present; lock file recreated; recovering Open by the real code; "
                      "TLC (TraceFraming.tla) computes from the abstract description what must be replayed (valid prefix of every segment, in sequence order), where each file must be cut, and compares contents, Count, Has, Items and file sizes. "
                      "Framing.tla checks the iterator transcription over all tails of <= 3 items. distinct_nontrivial = damaged databases")


def c19(ctx):
    q = ctx.quick()
    ctx.model_check("Framing.tla", "cfg/framing.cfg", workers=4, timeout=600)
    ctx.model_check("Framing.tla", "cfg/framing_pinned_D7.cfg", workers=4, expect_violation="AllocBounded", timeout=600)
    outs = framing_jobs(ctx, "claims", 8, 60 if q else 1500, ["-claims"])
    rejs = ctx.validate(outs, module="TraceFraming.tla", cfg="TraceFraming.cfg")
    ctx.sample_from(outs[0], 2, maxlen=4000)
    ctx.report_rejections(rejs, describe_generic)
    h = ctx.cov["harness"]["claims"]
    ctx.cov["evaluations"] = h.get("cases", 0)
    ctx.cov["distinct_nontrivial"] = h.get("cases", 0)
    ctx.assumptions += ["allocation = runtime.MemStats.TotalAlloc across the recovering Open plus the harness read-back, in-process; bound 32 x bytes on disk + 1 MiB (measured on the repaired tree: 0.29-0.43 MB for these databases)"]
    return ctx.finish("exploration", "garbage 6-byte headers after the last valid record of a segment: key size in {0,1,255,4096,65535} x value size in {0,1,511,64Ki,1Mi,64Mi,2^31-1} x both record types x {0,3,100,5000} trailing bytes, "
                      "on small multi-segment databases; the recovering Open of the real code is measured (bytes allocated, wall time) and TLC (TraceFraming.tla) checks the allocation bound together with the C08 outcome (tail discarded, contents = valid prefixes)")


def c15(ctx):
    q = ctx.quick()
    wal_models(ctx, "power", ["D6b"])
    outs = seq_jobs(ctx, "after-compact", 8, 6 if q else 60, 120, 20, ALLFS, ["-strict", "-aftercompact"])
    jobs, outs2 = [], []
    for i, fsn in enumerate(("os", "osmmap") * (3 if q else 6)):
        out = ctx.path("rec-steady-%d.ndjson" % i)
        outs2.append(out)
        jobs.append(["steady", "-fs", fsn, "-n", "1" if q else "4", "-ops", "36" if q else "200", "-keys", str(30 + 8 * i), "-dir", ctx.path("tmp"),
                     "-seed", str(ctx.seed * 7919 + i), "-out", out])
    add_stats(ctx, ctx.vrun_parallel(jobs), "steady")
    # the database stays usable after a Compact or Sync that FAILED (injected file-system error at a seeded call)
    jobs5, outs5 = fault_jobs(ctx, "seq", 4, 6 if q else 60, 60, 10, ["-failmaint", "-compactheavy"])
    add_stats(ctx, ctx.vrun_parallel(jobs5), "failed-maintenance")
    rejs = ctx.validate(outs + outs2 + outs5)
    ctx.sample_from(outs[0], 1)
    ctx.report_rejections(rejs, describe_generic)
    h = ctx.cov["harness"]
    ctx.cov["evaluations"] = h["after-compact"].get("ops", 0) + h["steady"].get("ops", 0)
    ctx.cov["distinct_nontrivial"] = h["after-compact"].get("programs", 0) + h["steady"].get("runs", 0)
    return ctx.finish("model_checking", "strict recordings (an error of Sync/Compact/Backup/Close is a violation): histories with Sync, Put, Delete, Backup (and often a clean restart) after every Compact, and histories that delete everything so that compaction removes EVERY segment, "
                      "on all four file systems; after every successful Compact the directory listing is recorded: TLC checks that every vanished segment and its side file are gone, their number equals the reported count and every remaining file is lock/db meta/index or a live segment with its side file. "
                      "Steady state: 36-200 rounds of overwrite/delete + Compact with a clean restart every 5th round on fs.OS and fs.OSMMap; file count, directory bytes, open descriptors and mappings of the database files per round, bounded by the live data (TRound)")


def c14(ctx):
    q = ctx.quick()
    outs = seq_jobs(ctx, "held-slices", 12, 3 if q else 30, 220, 40, ("osmmap", "osmmap", "os", "mem", "osmmap", "crashfs"), ["-hold", "-inject", "-scans"])
    # what Get / GetAppend / Next hand out must have been copied before the lock was released: a Close or a compaction
    # started at that very moment makes the file's memory inaccessible
    outs += closerace_jobs(ctx, 2, 6 if q else 60)
    if getattr(ctx, "crashes", []):
        raise Inconclusive("the close-race driver died:\n" + ctx.crashes[0][1][:1500])
    rejs = ctx.validate(outs, dfs=True)
    ctx.sample_from(outs[0], 1)
    ctx.report_rejections(rejs, describe_generic)
    h = ctx.cov["harness"]["held-slices"]
    ctx.cov["evaluations"] = ctx.cov["events"]
    ctx.cov["distinct_nontrivial"] = h.get("programs", 0)
    ctx.assumptions += ["memory aliasing is outside TLA+: the specification contributes the histories after each read and the oracle Observe(id) = Hold(id); a slice into unmapped memory is turned into a fault event by SetPanicOnFault"]
    return ctx.finish("exploration", "every byte slice returned by Get, GetAppend and ItemIterator.Next in C01-style histories (overwrites, deletes, compaction removing the segment read from, segment growth and remapping, clean restarts, Close) "
                      "is kept with its digest and re-read every 7 calls, after every Compact and after Close, mostly on the memory-mapped file system; key/value buffers passed to Put/Delete/Get are overwritten with 0xA5 as soon as the call returns; "
                      "TLC validates Hold/Observe (digests never change), the absence of fault events, and that all later reads still return the original data")


def c16(ctx):
    q = ctx.quick()
    jobs, outs = [], []
    for i, fsn in enumerate(ALLFS + ("osmmap", "os")):
        out = ctx.path("rec-sizes-seq-%d.ndjson" % i)
        outs.append(out)
        jobs.append(["sizes", "-mode", "seq", "-fs", fsn, "-n", "3" if q else "30", "-dir", ctx.path("tmp"), "-seed", str(ctx.seed * 7919 + i), "-out", out])
    for i in range(6):
        out = ctx.path("rec-sizes-crash-%d.ndjson" % i)
        outs.append(out)
        jobs.append(["sizes", "-mode", "crash", "-fs", "crashfs", "-n", "2" if q else "20", "-seed", str(ctx.seed * 104729 + i), "-out", out])
    if not q:
        out = ctx.path("rec-sizes-huge.ndjson")
        outs.append(out)
        jobs.append(["sizes", "-mode", "seq", "-fs", "os", "-huge", "-n", "1", "-dir", ctx.path("tmp"), "-seed", str(ctx.seed), "-out", out])
    add_stats(ctx, ctx.vrun_parallel(jobs), "sizes")
    rejs = ctx.validate(outs)
    ctx.sample_from(outs[0], 1)
    ctx.report_rejections(rejs, describe_generic)
    h = ctx.cov["harness"]["sizes"]
    ctx.cov["evaluations"] = h.get("ops", 0)
    ctx.cov["distinct_nontrivial"] = h.get("programs", 0)
    ctx.assumptions += ["values longer than 48 bytes are compared by length + 64-bit digest"]
    return ctx.finish("exploration", "programs over key lengths {0,1,2,255,4096,65535} and value lengths {0,1,2,100,494-496,505,511-513,1024, segment capacity -30/-16/0/+1, 2x capacity} with 2 KB - 1 MB segments; "
                      "over-long keys (65536, 65537, 65536+len of a stored key, 131072) in Put (must fail, Count and read-back unchanged), Get/Has/GetAppend/Delete (absent); empty value vs missing key; clean restarts, compaction, crash images and continued epochs on crashfs; "
                      "thorough: the 512 MiB value limit and limit+1 on fs.OS. Validated by TLC against Layer A (TooLarge: error and no effect; byte-exact values)")


def c17(ctx):
    q = ctx.quick()
    jobs, outs = [], []
    for i in range(8):
        out = ctx.path("rec-diff-%d.ndjson" % i)
        outs.append(out)
        jobs.append(["diff", "-n", "3" if q else "40", "-ops", "150", "-keys", "40", "-dir", ctx.path("tmp"), "-seed", str(ctx.seed * 7919 + i * 31), "-out", out])
    add_stats(ctx, ctx.vrun_parallel(jobs), "diff")
    rejs = ctx.validate(outs)
    ctx.sample_from(outs[0], 1)
    ctx.report_rejections(rejs, describe_generic)
    h = ctx.cov["harness"]["diff"]
    ctx.cov["evaluations"] = h.get("ops", 0)
    ctx.cov["distinct_nontrivial"] = h.get("programs", 0)
    return ctx.finish("exploration", "the same random program (colliding keys, values up to 2.2 KB, rollover, compaction, clean restarts, simulated unclean shutdowns with 0-700 garbage bytes appended to the newest segment and recovery) with a pinned hash seed "
                      "on fs.Mem, fs.OS, fs.OSMMap and crashfs; each of the four recordings is validated by TLC against Layer A, and an fscmp event carries the digest of all responses and of the names and bytes of all segment files per file system, which TLC requires to be equal")


def c18(ctx):
    q = ctx.quick()
    out = ctx.path("rec-golden.ndjson")
    st = ctx.vrun(["golden-check", "-golden", os.path.join(VERIF, "golden"), "-dir", ctx.path("tmp"), "-seed", str(ctx.seed), "-out", out])
    add_stats(ctx, [st], "golden")
    # every segment the current code writes is read by the independent decoder (decoded events)
    outs = seq_jobs(ctx, "decode", 8, 3 if q else 30, 200, 50, ALLFS)
    rejs = ctx.validate([out] + outs)
    ctx.sample_from(out, 1)
    ctx.report_rejections(rejs, describe_generic)
    h = ctx.cov["harness"]
    ctx.cov["evaluations"] = h["golden"].get("opened", 0) + h["decode"].get("programs", 0)
    ctx.cov["distinct_nontrivial"] = h["golden"].get("opened", 0) + h["decode"].get("programs", 0)
    ctx.assumptions += ["the golden corpus (/verif/golden, 7 directories) was written once by a harness built against the pinned commit plus the verif hooks; its expected contents are what the pinned version itself read back",
                        "harness/h/decoder.go is written from docs/design.md and shares no code with pogreb"]
    return ctx.finish("exploration", "golden directories written by the pinned version (index growth over several levels, overflow chains from colliding hashes, rollover + compaction + restarts, unclean shutdown, unclean with a torn tail, empty) "
                      "are copied and opened by the current code on fs.OS and fs.OSMMap: identical contents, recovery exactly for the unclean ones, then 40 more operations, compaction, restart; "
                      "and the segment files of every sequential recording are read by an independent decoder of the documented format (header signature + version 2, record layout, CRC-32, sequence-numbered names) "
                      "and replayed in sequence order: TLC requires the result to equal the Layer-A contents (TDecoded)")


CHECKS = {"C14": c14, "C16": c16, "C17": c17, "C18": c18, "C15": c15, "C08": c08, "C19": c19, "C13": c13, "C07": c07, "C10": c10, "C02": c02, "C11": c11, "C12": c12, "C05": c05, "C01": c01, "C03": c03, "C04": c04, "C06": c06, "C09": c09}
