SPECIFICATION TSpec
CONSTANT Threads <- TraceThreads
VIEW TView
CONSTRAINT HighWater
POSTCONDITION Accepted
CHECK_DEADLOCK FALSE
