SPECIFICATION TSpec
CONSTANT Threads <- TraceThreads
CONSTRAINT HighWater
POSTCONDITION Accepted
CHECK_DEADLOCK FALSE
