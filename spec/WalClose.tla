------------------------------ MODULE WalClose ------------------------------
(***************************************************************************)
(* Layer B, part 1c: exit paths of DB.Close on top of Wal.tla (C13, C09).  *)
(*                                                                         *)
(* db.Close performs, in this order: write the database meta; per segment  *)
(* write its meta and sync it; write the index meta and sync the index     *)
(* files; remove the lock file.  Any of the file-system calls behind these *)
(* steps may fail; Close then returns the error - the session did NOT      *)
(* complete Close - and the process eventually exits.  What the next Open  *)
(* finds depends on one thing only: is the lock file still there?          *)
(*                                                                         *)
(*   CloseFails    Close fails before the lock file is removed: the lock   *)
(*                 file stays, the next Open recovers (replay of the       *)
(*                 segment files; index and metas are discarded)           *)
(*   KeepsLock = FALSE models a Close that goes on to remove the lock file *)
(*                 after a failure to persist the index (seeded change     *)
(*                 S50): the next Open is a clean one and loads the index  *)
(*                 persisted by the LAST SUCCESSFUL Close (pidx) - it must *)
(*                 be refuted (Represents).                                *)
(***************************************************************************)
EXTENDS Wal

CONSTANTS KeepsLock

VARIABLES pidx     \* the index as persisted by the last successful Close (what a clean Open loads)
cvars == <<vars, pidx>>

CInit == Init /\ pidx = idx

\* a successful Close persists the index
CClose == Close /\ pidx' = idx

\* Close fails somewhere before the lock file would be removed: some segment metas may have been rewritten
\* (any subset), the index is not persisted, the process exits
CloseFails ==
  /\ Restart /\ Busy /\ cq = <<>> /\ csrc = -1
  /\ \E W \in SUBSET Live :
       segs' = [i \in Ids |-> IF i \in W THEN [segs[i] EXCEPT !.pfull = segs[i].full] ELSE segs[i]]
  /\ open' = FALSE /\ nops' = nops + 1
  /\ IF KeepsLock
     THEN UNCHANGED <<lockf, idx>>
     ELSE lockf' = FALSE /\ idx' = pidx          \* the next (clean) Open trusts the stale index files
  /\ UNCHANGED <<cur, maxSeq, idxOK, cq, csrc, cpos, abs, synced, since, lost, syncErr, ncrash, pidx>>

CNext ==
  \/ (\E k \in Keys : (\E v \in Vals : Put(k, v)) \/ Del(k)) /\ UNCHANGED pidx
  \/ (TornPut \/ Crash \/ Recover) /\ UNCHANGED pidx
  \/ (Pick \/ Seal \/ Step \/ Remove) /\ UNCHANGED pidx
  \/ (Sync \/ PowerLoss) /\ UNCHANGED pidx
  \/ CClose \/ CloseFails
  \/ OpenClean /\ UNCHANGED pidx

CSpec == CInit /\ [][CNext]_cvars
CView == <<View, pidx>>
=============================================================================
