----------------------------- MODULE TraceFraming -----------------------------
(***************************************************************************)
(* Trace validation for C08 / C19: the harness describes every segment of  *)
(* a damaged database as a sequence of abstract items (Framing.tla) - the  *)
(* records the real code wrote, read back by an independent decoder of the *)
(* documented format, plus the damage it injected - and logs what the      *)
(* recovering Open of the real code did.  This module computes from the    *)
(* description what MUST happen: the valid prefix of every segment is      *)
(* replayed in sequence order, each damaged segment is cut right behind    *)
(* its valid prefix, and the allocation is bounded by the bytes present.   *)
(***************************************************************************)
EXTENDS Integers, Sequences, FiniteSets, TLC, Json, IOUtils

Trace == ndJsonDeserialize(IOEnv.TRACE)

VARIABLES l, segs, present
fvars2 == <<l, segs, present>>

HeaderSize == 512
Ev == Trace[l]
Is(e) == l <= Len(Trace) /\ Trace[l].e = e
Step == l' = l + 1

RECURSIVE SumBytes(_, _)
SumBytes(items, k) == IF k = 0 THEN 0 ELSE items[k].n + SumBytes(items, k - 1)
RECURSIVE ValidPrefixLen(_, _)
ValidPrefixLen(items, i) == IF i > Len(items) THEN Len(items)
                            ELSE IF items[i].kind = "valid" THEN ValidPrefixLen(items, i + 1) ELSE i - 1

PutF(f, k, v) == [x \in (DOMAIN f) \cup {k} |-> IF x = k THEN v ELSE f[x]]
DelF(f, k)    == [x \in (DOMAIN f) \ {k} |-> f[x]]

\* replay of the first n items of a segment
RECURSIVE ApplyItems(_, _, _, _)
ApplyItems(m, items, i, n) ==
  IF i > n THEN m
  ELSE ApplyItems(IF items[i].rec[1] = "put" THEN PutF(m, items[i].rec[2], items[i].rec[3]) ELSE DelF(m, items[i].rec[2]),
                  items, i + 1, n)
\* ... of all segments in sequence order
RECURSIVE ReplaySegs(_, _, _)
ReplaySegs(m, ss, i) ==
  IF i > Len(ss) THEN m
  ELSE ReplaySegs(ApplyItems(m, ss[i].items, 1, ValidPrefixLen(ss[i].items, 1)), ss, i + 1)

Expected(ss) == ReplaySegs([x \in {} |-> ""], ss, 1)
ExpectedSize(items) == HeaderSize + SumBytes(items, ValidPrefixLen(items, 1))
SeqSet(s) == {s[i] : i \in 1..Len(s)}
Pairs(f) == {<<k, f[k]>> : k \in DOMAIN f}

\* C19: recovery allocates a small multiple of what is on disk (index rebuild, read buffers, the
\* read-back of the harness itself), never the claimed lengths
AllocBound(p) == 32 * p + 1048576

FInit == l = 1 /\ segs = <<>> /\ present = 0 /\ TLCSet(1, 1)
FReset == Is("reset") /\ Step /\ segs' = <<>> /\ present' = 0
FDescribe == Is("framing") /\ Step /\ segs' = Ev.segs /\ present' = Ev.present
FResult ==
  /\ Is("framing_result") /\ Step
  /\ Ev.err = ""                                            \* the recovering Open neither fails nor panics
  /\ Ev.recovered
  /\ Ev.kv = Expected(segs)                                 \* exactly the valid prefixes, every segment, nothing else
  /\ Ev.count = Cardinality(DOMAIN Ev.kv)
  /\ SeqSet(Ev.has) = DOMAIN Ev.kv
  /\ Len(Ev.items) = Cardinality(DOMAIN Ev.kv) /\ SeqSet(Ev.items) = Pairs(Ev.kv)
  /\ \A i \in 1..Len(segs) : Ev.sizes[i] = ExpectedSize(segs[i].items)     \* cut right behind the valid prefix
  /\ Ev.alloc <= AllocBound(present)
  /\ UNCHANGED <<segs, present>>
FNote == Is("note") /\ Step /\ UNCHANGED <<segs, present>>

FNext == FReset \/ FDescribe \/ FResult \/ FNote
FTSpec == FInit /\ [][FNext]_fvars2

HighWater == TLCSet(1, IF TLCGet(1) >= l THEN TLCGet(1) ELSE l)
Accepted  == IF TLCGet(1) = Len(Trace) + 1 THEN TRUE
             ELSE PrintT(<<"REJECTED-AT", TLCGet(1), Len(Trace)>>) /\ FALSE
=============================================================================
