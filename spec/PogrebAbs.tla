------------------------------ MODULE PogrebAbs ------------------------------
(***************************************************************************)
(* Layer A: the property-level specification of pogreb.                    *)
(*                                                                         *)
(* It knows nothing about buckets, segments or files.  It is a durable     *)
(* map with sessions, crash / power-loss images, sync points, scans,       *)
(* backups and held slices - exactly the vocabulary of properties C01-C19. *)
(*                                                                         *)
(* Every public call is two visible steps, Inv and Ret, with a silent      *)
(* step Lin in between that applies the sequential meaning of the call.    *)
(* A recording of the real code is accepted iff SOME placement of the Lin  *)
(* steps explains every logged result (TraceAbs.tla binds the events).     *)
(* The same actions, closed over small constant sets, form a stand-alone   *)
(* specification (Next below) whose own invariants TLC checks in           *)
(* cfg/abs_*.cfg.                                                          *)
(***************************************************************************)
EXTENDS Integers, Sequences, FiniteSets, TLC

CONSTANT Threads        \* goroutine identifiers

VARIABLES
  kv,       \* contents implied by the linearized operations: [live key -> value]
  pend,     \* [Threads -> call record]: idle / invoked / linearized
  mode,     \* "closed" | "open" | "image" (an image of the directory is being examined)
  back,     \* mode to return to after an image has been examined
  cfg,      \* run configuration: [syncw, strict, bg, dur]; dur = FALSE switches the durability
            \* bookkeeping off (histories without power loss: linearization orders of commuting
            \* operations then lead to the same state and the search stays small)
  seq,      \* linearization counter of mutators
  ver,      \* [key -> sequence of [s, val]] versions of a key in linearization order
  acked,    \* [key -> seq of the newest ACKNOWLEDGED (returned) mutator of the key]
  floor,    \* [key -> seq] durable floor: that version or a later one must survive power loss
  closing,  \* a Close has been invoked in this session
  closedLin,\* ... and has taken effect
  img,      \* the image under examination: [lossy, lock, seen, c]
  scans,    \* [scan id -> [st, untouched, ret, dirty]]
  everPut,  \* set of <<k, v>> ever offered to the database (C11: truthfulness)
  bk,       \* [backup dir -> contents captured at Backup's linearization point]
  held      \* [slice id -> digest] slices handed to the caller (C14)

absvars == <<kv, pend, mode, back, cfg, seq, ver, acked, floor, closing, closedLin,
             img, scans, everPut, bk, held>>

-----------------------------------------------------------------------------
(* Helpers on finite maps                                                   *)
Idle      == [st |-> "idle"]
NilV      == [nil |-> TRUE, v |-> ""]
SomeV(v)  == [nil |-> FALSE, v |-> v]
EmptyMap  == [x \in {} |-> ""]
ValOf(f, k)   == IF k \in DOMAIN f THEN SomeV(f[k]) ELSE NilV
PutF(f, k, v) == [x \in (DOMAIN f) \cup {k} |-> IF x = k THEN v ELSE f[x]]
DelF(f, k)    == [x \in (DOMAIN f) \ {k} |-> f[x]]
Get0(f, k)    == IF k \in DOMAIN f THEN f[k] ELSE 0
MaxN(a, b)    == IF a >= b THEN a ELSE b
Pairs(f)      == {<<k, f[k]>> : k \in DOMAIN f}
SeqSet(s)     == {s[i] : i \in 1..Len(s)}

MaxKeyLen == 65535
MaxValLen == 536870912      \* 512 MiB

Mutator(op) == op \in {"put", "del"}
Maint(op)   == op \in {"compact", "backup"}

\* the value a pending mutator would give its key
After(p) == IF p.op = "put" THEN SomeV(p.v) ELSE NilV

TooLarge(p) == p.op = "put" /\ (p.kl > MaxKeyLen \/ p.vl > MaxValLen)

-----------------------------------------------------------------------------
(* Versions and the durable floor (C06, C09)                                *)
VersOf(k) == IF k \in DOMAIN ver THEN ver[k] ELSE <<>>
AddVer(k, s, val) ==
  [x \in (DOMAIN ver) \cup {k} |-> IF x = k THEN Append(VersOf(k), [s |-> s, val |-> val]) ELSE ver[x]]

\* values of key k that an un-linearized in-flight mutator may still produce
PendVals(k) == {After(pend[t]) : t \in {u \in Threads : pend[u].st = "inv" /\ Mutator(pend[u].op)
                                                         /\ pend[u].k = k /\ ~TooLarge(pend[u])}}

\* value of k at its durable floor, or anything linearized after it
Admissible(k) ==
  LET vs    == VersOf(k)
      fl    == Get0(floor, k)
      below == {i \in 1..Len(vs) : vs[i].s <= fl}
      base  == IF below = {} THEN NilV
               ELSE vs[CHOOSE i \in below : \A j \in below : j <= i].val
      later == {vs[i].val : i \in {j \in 1..Len(vs) : vs[j].s > fl}}
  IN  {base} \cup later \cup PendVals(k)

\* keys the oracle has an opinion about
Universe(c) == (DOMAIN c) \cup (DOMAIN kv) \cup (DOMAIN ver)
               \cup {pend[t].k : t \in {u \in Threads : pend[u].st = "inv" /\ Mutator(pend[u].op)}}

\* process crash: nothing acknowledged or linearized is lost; each in-flight call is all or nothing
CrashOK(c) == \A k \in Universe(c) : ValOf(c, k) \in {ValOf(kv, k)} \cup PendVals(k)
\* power loss: per key the durable-floor value or a later one
LossOK(c)  == \A k \in Universe(c) : ValOf(c, k) \in Admissible(k)

-----------------------------------------------------------------------------
(* Calls                                                                    *)

\* a mutator of key k starts: scans can no longer vouch for k
Touch(sc, k) == [s \in DOMAIN sc |->
                   IF sc[s].st \in {"active", "done"}
                   THEN [sc[s] EXCEPT !.untouched = DelF(@, k), !.dirty = TRUE]
                   ELSE sc[s]]

Inv(t, call) ==
  /\ mode = "open" \/ (mode = "closed" /\ closing)     \* calls on a handle that has been closed (C10)
  /\ pend[t].st = "idle"
  /\ pend' = [pend EXCEPT ![t] = [st |-> "inv", snap |-> IF cfg.dur /\ call.op = "sync" THEN acked ELSE <<>>] @@ call]
  /\ scans' = IF Mutator(call.op) THEN Touch(scans, call.k) ELSE scans
  /\ everPut' = IF call.op = "put" /\ cfg.ep THEN everPut \cup {<<call.k, call.v>>} ELSE everPut
  /\ closing' = (closing \/ call.op = "close")
  /\ UNCHANGED <<kv, mode, back, cfg, seq, ver, acked, floor, closedLin, img, bk, held>>

\* what the call must return if it takes effect now
Result(p) ==
  CASE p.op = "get"       -> ValOf(kv, p.k)
    [] p.op = "getappend" -> ValOf(kv, p.k)           \* the caller's buffer is checked at the return
    [] p.op = "has"       -> p.k \in DOMAIN kv
    [] p.op = "count"     -> Cardinality(DOMAIN kv)
    [] p.op = "items"     -> kv
    [] p.op = "backup"    -> kv
    [] OTHER              -> "ok"

Lin(t) ==
  /\ mode = "open"
  /\ pend[t].st = "inv"
  /\ ~closedLin
  /\ pend[t].op # "next"
  /\ ~TooLarge(pend[t])
  /\ LET p == pend[t] IN
     /\ kv' = CASE p.op = "put" -> PutF(kv, p.k, p.v)
                [] p.op = "del" -> DelF(kv, p.k)
                [] OTHER        -> kv
     /\ seq' = IF Mutator(p.op) /\ cfg.dur THEN seq + 1 ELSE seq
     /\ ver' = IF Mutator(p.op) /\ cfg.dur THEN AddVer(p.k, seq + 1, After(p)) ELSE ver
     /\ pend' = [pend EXCEPT ![t] = [st |-> "lin", res |-> Result(p), s |-> IF cfg.dur THEN seq + 1 ELSE 0] @@ p]
     /\ closedLin' = (p.op = "close")
  /\ UNCHANGED <<mode, back, cfg, acked, floor, closing, img, scans, everPut, bk, held>>

\* Note on `snap': for Sync the set of effects that must be durable at its return is what
\* had been ACKNOWLEDGED (returned) when Sync was CALLED - the weakest reading of "once Sync has
\* returned the effects acknowledged up to that point survive", and independent of where the
\* linearization point of Sync is placed.

\* the durable floor after call p has returned successfully
FloorAfter(p) ==
  CASE p.op = "sync"  -> [k \in (DOMAIN floor) \cup (DOMAIN p.snap) |-> MaxN(Get0(floor, k), Get0(p.snap, k))]
    [] p.op = "close" -> [k \in DOMAIN ver |-> ver[k][Len(ver[k])].s]
    [] Mutator(p.op) /\ cfg.syncw ->
          [k \in (DOMAIN floor) \cup {p.k} |-> IF k = p.k THEN MaxN(Get0(floor, k), p.s) ELSE floor[k]]
    [] OTHER -> floor

\* does the logged response r agree with the linearized result?
Matches(p, r) ==
  CASE p.op = "get"       -> r.nil = p.res.nil /\ (r.nil \/ r.v = p.res.v)
    [] p.op = "getappend" -> IF r.amb THEN p.res.nil \/ p.res.v = ""      \* empty buffer, empty result: missing key or empty value
                             ELSE r.nil = p.res.nil /\ (r.nil \/ (r.pre = p.buf /\ r.v = p.res.v))  \* buffer extended by the value
    [] p.op = "has"    -> r.found = p.res
    [] p.op = "count"  -> r.n = p.res
    [] p.op = "items"  -> /\ Len(r.items) = Cardinality(DOMAIN p.res)     \* each live key exactly once
                          /\ SeqSet(r.items) = Pairs(p.res)
    [] OTHER -> TRUE

RetOk(t, r) ==
  /\ mode \in {"open", "closed"}      \* "closed": the call overlapped a Close that has returned already
  /\ pend[t].st = "lin"
  /\ r.err = ""
  /\ Matches(pend[t], r)
  /\ LET p == pend[t] IN
     /\ acked' = IF Mutator(p.op) /\ cfg.dur
                 THEN [k \in (DOMAIN acked) \cup {p.k} |-> IF k = p.k THEN MaxN(Get0(acked, k), p.s) ELSE acked[k]]
                 ELSE acked
     /\ floor' = IF cfg.dur THEN FloorAfter(p) ELSE floor
     /\ bk' = IF p.op = "backup" THEN [d \in (DOMAIN bk) \cup {p.dir} |-> IF d = p.dir THEN p.res ELSE bk[d]] ELSE bk
     /\ mode' = IF p.op = "close" THEN "closed" ELSE mode
  /\ pend' = [pend EXCEPT ![t] = Idle]
  /\ UNCHANGED <<kv, back, cfg, seq, ver, closing, closedLin, img, scans, everPut, held>>

\* An error return.  The call may or may not have taken effect (both placements of Lin are
\* explored) except where the property says it must not have.
ErrorAllowed(t, r) ==
  LET p == pend[t] IN
  \/ TooLarge(p) /\ r.ek = "toolarge" /\ p.st = "inv"                          \* C16: no effect
  \/ p.op = "compact" /\ r.ek = "busy"
       /\ (cfg.bg \/ \E u \in Threads \ {t} : pend[u].st # "idle" /\ Maint(pend[u].op))
  \/ closing /\ p.op # "close"                                                 \* C10: lost the race with Close
  \/ ~cfg.strict /\ p.op \in {"sync", "compact", "backup", "close"}             \* noted, judged by C15's runs
  \/ p.op \in {"compact", "sync", "backup"} /\ r.ek = "injected"   \* the harness made a file-system call of the operation fail:
                                             \* the error is the correct answer; the contents must be untouched (next ReadAll)
  \/ p.op = "close" /\ r.ek = "injected"      \* the harness made a file-system call of Close fail: the process exits,
                                             \* the next event is the image of the directory as this Close left it (C13)

RetErr(t, r) ==
  /\ mode \in {"open", "closed"}
  /\ pend[t].st \in {"inv", "lin"}
  /\ r.err # ""
  /\ ErrorAllowed(t, r)
  /\ pend' = [pend EXCEPT ![t] = Idle]
  /\ UNCHANGED <<kv, mode, back, cfg, seq, ver, acked, floor, closing, closedLin, img, scans, everPut, bk, held>>

\* A call that overlaps or follows Close and returns without error.  C10 constrains only its
\* effect on the contents: a read has none and its result is not judged (C07 does not cover Close);
\* a write either took effect before the Close did (RetOk) or must have had no effect - which
\* the clean reopen at the end of the history checks (contents = kv).
RetRacingRead(t, r) ==
  /\ mode \in {"open", "closed"}
  /\ closing
  /\ pend[t].st \in {"inv", "lin"}
  /\ pend[t].op # "close"
  /\ Mutator(pend[t].op) => (pend[t].st = "inv" /\ mode = "closed")   \* it returned after Close did: it lost the race
  /\ r.err = ""
  /\ pend' = [pend EXCEPT ![t] = Idle]
  /\ UNCHANGED <<kv, mode, back, cfg, seq, ver, acked, floor, closing, closedLin, img, scans, everPut, bk, held>>

-----------------------------------------------------------------------------
(* Scans (C11).  A scan starts when Items() is called.                      *)
NoPendingMutator(k) == \A t \in Threads : ~(pend[t].st # "idle" /\ Mutator(pend[t].op) /\ pend[t].k = k)

ScanStart(s) ==
  /\ mode = "open" \/ (mode = "closed" /\ closing)
  /\ s \notin DOMAIN scans
  /\ LET unt == [k \in {x \in DOMAIN kv : NoPendingMutator(x)} |-> kv[k]]
         dirty == \E t \in Threads : pend[t].st # "idle" /\ Mutator(pend[t].op)
     IN scans' = [x \in (DOMAIN scans) \cup {s} |->
                    IF x = s THEN [st |-> "active", untouched |-> unt, ret |-> <<>>, dirty |-> dirty]
                    ELSE scans[x]]
  /\ UNCHANGED <<kv, pend, mode, back, cfg, seq, ver, acked, floor, closing, closedLin, img, everPut, bk, held>>

\* Next returned a pair: it must have been put at some time (before this return)
ScanRet(t, r) ==
  /\ mode \in {"open", "closed"}
  /\ pend[t].st = "inv" /\ pend[t].op = "next"
  /\ r.err = "" /\ ~r.done
  /\ LET s == pend[t].scan IN
     \* "ErrIterationDone on every further call" is promised for a database nobody modifies: an iterator that
     \* has reported the end may go on when writers have grown the index since
     /\ s \in DOMAIN scans /\ (scans[s].st = "active" \/ (scans[s].st = "done" /\ scans[s].dirty))
     /\ <<r.k, r.v>> \in everPut
     /\ scans' = [scans EXCEPT ![s].ret = Append(@, <<r.k, r.v>>)]
  /\ pend' = [pend EXCEPT ![t] = Idle]
  /\ UNCHANGED <<kv, mode, back, cfg, seq, ver, acked, floor, closing, closedLin, img, everPut, bk, held>>

\* Next reported the end: complete for untouched keys, exact if nobody wrote during the scan
ScanDone(t, r) ==
  /\ mode \in {"open", "closed"}
  /\ pend[t].st = "inv" /\ pend[t].op = "next"
  /\ r.err = "" /\ r.done
  /\ LET s == pend[t].scan IN
     /\ s \in DOMAIN scans
     /\ scans[s].st = "active" =>
          /\ Pairs(scans[s].untouched) \subseteq SeqSet(scans[s].ret)
          /\ ~scans[s].dirty =>
               /\ Len(scans[s].ret) = Cardinality(DOMAIN scans[s].untouched)
               /\ SeqSet(scans[s].ret) = Pairs(scans[s].untouched)
     /\ scans' = [scans EXCEPT ![s].st = "done"]      \* and done on every further call
  /\ pend' = [pend EXCEPT ![t] = Idle]
  /\ UNCHANGED <<kv, mode, back, cfg, seq, ver, acked, floor, closing, closedLin, img, everPut, bk, held>>

-----------------------------------------------------------------------------
(* Sessions, crash and power-loss images (C02, C03, C04, C06, C09, C13)     *)

\* An image of the directory was taken: by a process crash (everything written so far is
\* there, an in-flight data write possibly torn) or by a power loss (unsynced data possibly
\* gone).  `lock' says whether the image contains a lock file, i.e. an unfinished session.
\* `failed': an Open attempt that failed with a (injected, transient) file-system error preceded the
\* successful one.  The property speaks about the next SUCCESSFUL Open: it must recover an unclean
\* directory; whether it also recovers a clean one on which a failed attempt left its lock file
\* behind is not judged (a needless recovery changes no contents).
Image(lossy, lock, failed) ==
  /\ mode \in {"open", "closed", "image"}
  /\ back' = IF mode = "image" THEN back ELSE mode
  /\ mode' = "image"
  /\ img' = [lossy |-> lossy, lock |-> lock, failed |-> failed, seen |-> FALSE, c |-> EmptyMap]
  /\ UNCHANGED <<kv, pend, cfg, seq, ver, acked, floor, closing, closedLin, scans, everPut, bk, held>>

\* what an Open observed: contents c (read back key by key), Count, Has, a full scan
Observed(r, c) ==
  /\ r.err = ""
  /\ r.count = Cardinality(DOMAIN c)
  /\ SeqSet(r.has) = DOMAIN c
  /\ Len(r.items) = Cardinality(DOMAIN c)
  /\ SeqSet(r.items) = Pairs(c)

\* the image was opened by the real code
Reopened(r) ==
  /\ mode = "image"
  /\ Observed(r, r.kv)
  /\ IF img.failed THEN img.lock => r.recovered
     ELSE r.recovered = img.lock                    \* C13: recovery iff the last session did not finish Close
  /\ IF img.lossy THEN LossOK(r.kv) ELSE CrashOK(r.kv)
  /\ img.seen => r.kv = img.c                       \* C04: recovering twice gives the same contents
  /\ img' = [img EXCEPT !.seen = TRUE, !.c = r.kv]
  /\ UNCHANGED <<kv, pend, mode, back, cfg, seq, ver, acked, floor, closing, closedLin, scans, everPut, bk, held>>

\* the examination ends, the recorded run goes on from where the image was taken
Restore ==
  /\ mode = "image"
  /\ mode' = back
  /\ UNCHANGED <<kv, pend, back, cfg, seq, ver, acked, floor, closing, closedLin, img, scans, everPut, bk, held>>

\* ... or the run goes on inside the image: the next epoch (C04)
Continue ==
  /\ mode = "image" /\ img.seen
  /\ LET c == img.c
         changed == {k \in Universe(c) : ValOf(c, k) # ValOf(kv, k)}
     IN
     /\ kv' = c
     /\ seq' = seq + 1
     /\ IF img.lossy
        THEN \* what survived a power failure is on disk
             /\ ver' = [k \in DOMAIN c |-> <<[s |-> seq + 1, val |-> SomeV(c[k])]>>]
             /\ acked' = [k \in DOMAIN c |-> seq + 1]
             /\ floor' = [k \in DOMAIN c |-> seq + 1]
        ELSE /\ ver' = [k \in (DOMAIN ver) \cup changed |->
                          IF k \in changed THEN Append(VersOf(k), [s |-> seq + 1, val |-> ValOf(c, k)])
                          ELSE ver[k]]
             /\ acked' = [k \in (DOMAIN acked) \cup changed |-> IF k \in changed THEN seq + 1 ELSE acked[k]]
             /\ floor' = floor
     /\ everPut' = everPut \cup Pairs(c)
  /\ pend' = [t \in Threads |-> Idle]
  /\ mode' = "open" /\ closing' = FALSE /\ closedLin' = FALSE
  /\ scans' = [s \in DOMAIN scans |-> [scans[s] EXCEPT !.st = "dead"]]
  /\ UNCHANGED <<back, cfg, img, bk, held>>

\* the harness damaged the tail of the newest segment of a closed directory beyond any crash model (data of
\* acknowledged records cut away) and left a lock file: the recovering Open must come up with exactly what a
\* validating reader of the documented format replays from the files (r.expect, computed by the independent
\* decoder before the Open) and never with a pair that was not written (C08); the run goes on from there
DamagedOpened(r) ==
  /\ mode = "closed"
  /\ Observed(r, r.kv)
  /\ r.kv = r.expect
  /\ r.recovered = TRUE
  /\ Pairs(r.kv) \subseteq everPut
  /\ kv' = r.kv /\ seq' = seq + 1
  /\ ver' = [k \in DOMAIN r.kv |-> <<[s |-> seq + 1, val |-> SomeV(r.kv[k])]>>]
  /\ acked' = [k \in DOMAIN r.kv |-> seq + 1]
  /\ floor' = [k \in DOMAIN r.kv |-> seq + 1]
  /\ mode' = "open" /\ closing' = FALSE /\ closedLin' = FALSE
  /\ pend' = [t \in Threads |-> Idle]
  /\ scans' = [s \in DOMAIN scans |-> [scans[s] EXCEPT !.st = "dead"]]
  /\ UNCHANGED <<back, cfg, img, everPut, bk, held>>

\* clean reopen after Close returned nil (C02): exactly the closed contents, no recovery
OpenClean(r) ==
  /\ mode = "closed"
  /\ Observed(r, r.kv)
  /\ r.kv = kv
  /\ r.recovered = FALSE
  /\ mode' = "open" /\ closing' = FALSE /\ closedLin' = FALSE
  /\ pend' = [t \in Threads |-> Idle]
  /\ scans' = [s \in DOMAIN scans |-> [scans[s] EXCEPT !.st = "dead"]]
  /\ UNCHANGED <<kv, back, cfg, seq, ver, acked, floor, img, everPut, bk, held>>

\* a full read-back of the open, quiescent database (C01, C05)
ReadAll(r) ==
  /\ mode = "open"
  /\ \A t \in Threads : IF pend[t].st = "idle" THEN TRUE
                                              ELSE ~Mutator(pend[t].op) /\ pend[t].op # "close"   \* nobody is writing
  /\ Observed(r, r.kv)
  /\ r.kv = kv
  /\ UNCHANGED absvars

\* a backup directory was opened (C12): it must recover (Backup leaves a lock file in the copy)
\* and hold exactly the contents at Backup's linearization point
BackupOpened(r) ==
  /\ r.dir \in DOMAIN bk
  /\ Observed(r, r.kv)
  /\ r.kv = bk[r.dir]
  /\ bk' = [d \in (DOMAIN bk) \ {r.dir} |-> bk[d]]       \* examined: the candidate instants collapse to the one that matches
  /\ UNCHANGED <<kv, pend, mode, back, cfg, seq, ver, acked, floor, closing, closedLin, img, scans, everPut, held>>

-----------------------------------------------------------------------------
(* Held slices (C14)                                                        *)
Hold(id, d) ==
  /\ id \notin DOMAIN held
  /\ held' = [x \in (DOMAIN held) \cup {id} |-> IF x = id THEN d ELSE held[x]]
  /\ UNCHANGED <<kv, pend, mode, back, cfg, seq, ver, acked, floor, closing, closedLin, img, scans, everPut, bk>>

Observe(id, d) ==
  /\ id \in DOMAIN held
  /\ held[id] = d
  /\ UNCHANGED absvars

-----------------------------------------------------------------------------
InitAbs(c) ==
  /\ kv = EmptyMap
  /\ pend = [t \in Threads |-> Idle]
  /\ mode = "closed" /\ back = "closed"
  /\ cfg = c
  /\ seq = 0
  /\ ver = [x \in {} |-> <<>>]
  /\ acked = [x \in {} |-> 0]
  /\ floor = [x \in {} |-> 0]
  /\ closing = FALSE /\ closedLin = FALSE
  /\ img = [lossy |-> FALSE, lock |-> FALSE, failed |-> FALSE, seen |-> FALSE, c |-> EmptyMap]
  /\ scans = [x \in {} |-> 0]
  /\ everPut = {}
  /\ bk = [x \in {} |-> 0]
  /\ held = [x \in {} |-> 0]

\* the same, as a step: a new recording starts
ResetAbs(c) ==
  /\ kv' = EmptyMap
  /\ pend' = [t \in Threads |-> Idle]
  /\ mode' = "closed" /\ back' = "closed"
  /\ cfg' = c
  /\ seq' = 0
  /\ ver' = [x \in {} |-> <<>>]
  /\ acked' = [x \in {} |-> 0]
  /\ floor' = [x \in {} |-> 0]
  /\ closing' = FALSE /\ closedLin' = FALSE
  /\ img' = [lossy |-> FALSE, lock |-> FALSE, failed |-> FALSE, seen |-> FALSE, c |-> EmptyMap]
  /\ scans' = [x \in {} |-> 0]
  /\ everPut' = {}
  /\ bk' = [x \in {} |-> 0]
  /\ held' = [x \in {} |-> 0]

=============================================================================
