SPECIFICATION LSpec
CONSTRAINT HighWater
POSTCONDITION Accepted
CHECK_DEADLOCK FALSE
