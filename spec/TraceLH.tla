------------------------------- MODULE TraceLH -------------------------------
(***************************************************************************)
(* Strict mode: conformance of the real linear-hashing index with Layer B. *)
(*                                                                         *)
(* In strict recordings the harness logs, after every call, the projected  *)
(* state of pogreb's index ("idx" events): level, split pointer, counts,   *)
(* the free list, and every chain bucket by bucket with the keys its slots *)
(* point at.  This module runs LHIndex.tla IN LOCKSTEP with the recording: *)
(* the model takes LHIndex!Put(k) / LHIndex!Del(k) for the logged call and *)
(* the logged state must then equal the model's state, bucket for bucket   *)
(* and slot for slot (C = 31, FixFind = TRUE, i.e. the repaired code).     *)
(* Calls that must not change the shape of the index (reads, Sync,         *)
(* Compact, Backup, and a clean Close/Open) must leave the projection      *)
(* unchanged; after a recovering Open the logged state is checked for      *)
(* well-formedness and adopted.                                            *)
(*                                                                         *)
(* As in TraceWal.tla a mismatch is DRIFT, not a property violation.       *)
(***************************************************************************)
EXTENDS LHIndex, SequencesExt, Json, IOUtils

Trace == ndJsonDeserialize(IOEnv.TRACE)

VARIABLE l
tvars == <<vars, l>>

Ev == Trace[l]
Is(e) == l <= Len(Trace) /\ Trace[l].e = e
Step == l' = l + 1

\* every key written anywhere in the file, with the low 16 bits of its hash (one pinned hash seed per file)
KeyEvents == {i \in 1..Len(Trace) : Trace[i].e = "idx" /\ Trace[i].after \in {"put", "del"}}
TraceKeys == {Trace[i].k : i \in KeyEvents}
NoSym == {}
TraceH    == [k \in TraceKeys |-> Trace[CHOOSE i \in KeyEvents : Trace[i].k = k].hk]

-----------------------------------------------------------------------------
(* the logged state as a model state                                        *)
ObsSlots(b) == [j \in 1..Len(b.slots) |-> [k |-> b.slots[j][1], v |-> 1]]
ObsMain(e)  == [b \in 1..Len(e.chains) |-> [slots |-> ObsSlots(e.chains[b][1]), next |-> e.chains[b][1].next]]
ObsOvfAt(e, pos) ==
  LET hits == {<<b, j>> \in (1..Len(e.chains)) \X (1..64) : j >= 2 /\ j <= Len(e.chains[b]) /\ e.chains[b][j].pos = pos} IN
  IF hits = {} THEN EmptyB
  ELSE LET p == CHOOSE x \in hits : TRUE IN [slots |-> ObsSlots(e.chains[p[1]][p[2]]), next |-> e.chains[p[1]][p[2]].next]
ObsOvf(e) == [pos \in 1..e.novf |-> ObsOvfAt(e, pos)]

\* projection of a model state: keys only (values of the model are version numbers)
KeysOf(b) == [j \in 1..Len(b.slots) |-> b.slots[j].k]
ChainProj(mn, ov, b) ==
  LET ls == Locs(mn, ov, b) IN
  [j \in 1..Len(ls) |-> [pos |-> IF ls[j].m THEN 0 ELSE ls[j].i, next |-> At(mn, ov, ls[j]).next, keys |-> KeysOf(At(mn, ov, ls[j]))]]
ObsChain(e, b) ==
  [j \in 1..Len(e.chains[b + 1]) |-> [pos |-> e.chains[b + 1][j].pos, next |-> e.chains[b + 1][j].next,
                                      keys |-> [i \in 1..Len(e.chains[b + 1][j].slots) |-> e.chains[b + 1][j].slots[i][1]]]]

\* the logged state equals the (primed) model state
Matches(e, lv, sp, nk, mn, ov, fr) ==
  /\ e.level = lv /\ e.split = sp /\ e.nkeys = nk /\ e.nb = Len(mn) /\ e.novf = Len(ov)
  /\ e.free = fr
  /\ \A b \in 0..(Len(mn) - 1) : ObsChain(e, b) = ChainProj(mn, ov, b)

\* the hash recorded in every slot is the hash of the key the slot points at
SlotHashesOK(e) ==
  \A b \in 1..Len(e.chains) : \A j \in 1..Len(e.chains[b]) : \A i \in 1..Len(e.chains[b][j].slots) :
     LET s == e.chains[b][j].slots[i] IN s[1] \in TraceKeys /\ s[2] = TraceH[s[1]]

-----------------------------------------------------------------------------
TInit == /\ h = TraceH /\ l = 1 /\ TLCSet(1, 1)
         /\ level = 0 /\ split = 0 /\ nkeys = 0
         /\ main = <<EmptyB>> /\ ovf = <<>> /\ free = <<>>
         /\ live = [k \in TraceKeys |-> 0] /\ nops = 0

TReset == /\ Is("reset") /\ Step
          /\ level' = 0 /\ split' = 0 /\ nkeys' = 0
          /\ main' = <<EmptyB>> /\ ovf' = <<>> /\ free' = <<>>
          /\ live' = [k \in TraceKeys |-> 0] /\ nops' = 0 /\ UNCHANGED h

\* after a recovering Open: the logged index must be well formed and hold exactly the keys the model holds;
\* its shape (recovery rebuilds it) is adopted.  A clean restart ("open") falls under TSame: level, split
\* pointer, counts, free list and every chain come back exactly as they were closed
TOpened ==
  /\ Is("idx") /\ Ev.after \in {"recovered", "tear"} /\ Step
  /\ SlotHashesOK(Ev)
  /\ level' = Ev.level /\ split' = Ev.split /\ nkeys' = Ev.nkeys
  /\ main' = ObsMain(Ev) /\ ovf' = ObsOvf(Ev) /\ free' = Ev.free
  /\ UNCHANGED <<h, nops>>
  /\ WellFormed'
  /\ IF Ev.after = "tear"
     THEN \* a simulated unclean shutdown may have cut records away: the key set is re-based on the index found
          live' = [k \in TraceKeys |-> IF (Get(k) # 0)' THEN 1 ELSE 0]
     ELSE UNCHANGED live /\ (\A k \in TraceKeys : (Get(k) # 0)' <=> live[k] # 0)
  /\ nkeys' = Cardinality({k \in TraceKeys : live'[k] # 0})

TPut == /\ Is("idx") /\ Ev.after = "put" /\ Step
        /\ Put(Ev.k)
        /\ SlotHashesOK(Ev)
        /\ Matches(Ev, level', split', nkeys', main', ovf', free')

TDel == /\ Is("idx") /\ Ev.after = "del" /\ Step
        /\ Del(Ev.k)
        /\ Matches(Ev, level', split', nkeys', main', ovf', free')

\* calls that must not change the shape of the index (compaction repoints slots, which the projection hides)
TSame == /\ Is("idx") /\ Ev.after \notin {"recovered", "tear", "put", "del"} /\ Step
         /\ Matches(Ev, level, split, nkeys, main, ovf, free)
         /\ UNCHANGED vars

TOther == l <= Len(Trace) /\ Trace[l].e \notin {"reset", "idx"} /\ Step /\ UNCHANGED vars

TNext == TReset \/ TOpened \/ TPut \/ TDel \/ TSame \/ TOther
TSpec == TInit /\ [][TNext]_tvars

HighWater == TLCSet(1, IF TLCGet(1) >= l THEN TLCGet(1) ELSE l)
Accepted  == IF TLCGet(1) = Len(Trace) + 1 THEN TRUE
             ELSE PrintT(<<"REJECTED-AT", TLCGet(1), Len(Trace)>>) /\ FALSE
=============================================================================
