------------------------------- MODULE TraceLH -------------------------------
(***************************************************************************)
(* Strict mode: conformance of the real linear-hashing index with Layer B. *)
(*                                                                         *)
(* In strict recordings the harness logs, after every call, the projected  *)
(* state of pogreb's index ("idx" events): level, split pointer, counts,   *)
(* the free list, and every chain bucket by bucket with the keys its slots *)
(* point at.  This module runs LHIndex.tla IN LOCKSTEP with the recording: *)
(* the model takes LHIndex!Put(k) / LHIndex!Del(k) for the logged call and *)
(* the logged state must then equal the model's state, bucket for bucket   *)
(* and slot for slot (C = 31, FixFind = TRUE, i.e. the repaired code).     *)
(* Calls that must not change the shape of the index (reads, Sync,         *)
(* Compact, Backup, and a clean Close/Open) must leave the projection      *)
(* unchanged; after a recovering Open the model is rebuilt by replaying    *)
(* the surviving records (as logged) through LHIndex!Put / LHIndex!Del and *)
(* the index the real recovery built must equal it.                        *)
(*                                                                         *)
(* As in TraceWal.tla a mismatch is DRIFT, not a property violation.       *)
(***************************************************************************)
EXTENDS LHIndex, SequencesExt, Json, IOUtils

Trace == ndJsonDeserialize(IOEnv.TRACE)

VARIABLES l,
          rq      \* records still to be replayed into the model after a recovering Open (silent steps)
tvars == <<vars, l, rq>>

Ev == Trace[l]
Is(e) == l <= Len(Trace) /\ Trace[l].e = e
Step == l' = l + 1

\* every key written anywhere in the file, with the low 16 bits of its hash (one pinned hash seed per file)
KeyEvents == {i \in 1..Len(Trace) : Trace[i].e = "idx" /\ Trace[i].after \in {"put", "del"}}
TraceKeys == {Trace[i].k : i \in KeyEvents}
NoSym == {}
TraceH    == [k \in TraceKeys |-> Trace[CHOOSE i \in KeyEvents : Trace[i].k = k].hk]

-----------------------------------------------------------------------------
(* the logged state as a model state                                        *)
ObsSlots(b) == [j \in 1..Len(b.slots) |-> [k |-> b.slots[j][1], v |-> 1]]
ObsMain(e)  == [b \in 1..Len(e.chains) |-> [slots |-> ObsSlots(e.chains[b][1]), next |-> e.chains[b][1].next]]
ObsOvfAt(e, pos) ==
  LET hits == {<<b, j>> \in (1..Len(e.chains)) \X (1..64) : j >= 2 /\ j <= Len(e.chains[b]) /\ e.chains[b][j].pos = pos} IN
  IF hits = {} THEN EmptyB
  ELSE LET p == CHOOSE x \in hits : TRUE IN [slots |-> ObsSlots(e.chains[p[1]][p[2]]), next |-> e.chains[p[1]][p[2]].next]
ObsOvf(e) == [pos \in 1..e.novf |-> ObsOvfAt(e, pos)]

\* projection of a model state: keys only (values of the model are version numbers)
KeysOf(b) == [j \in 1..Len(b.slots) |-> b.slots[j].k]
ChainProj(mn, ov, b) ==
  LET ls == Locs(mn, ov, b) IN
  [j \in 1..Len(ls) |-> [pos |-> IF ls[j].m THEN 0 ELSE ls[j].i, next |-> At(mn, ov, ls[j]).next, keys |-> KeysOf(At(mn, ov, ls[j]))]]
ObsChain(e, b) ==
  [j \in 1..Len(e.chains[b + 1]) |-> [pos |-> e.chains[b + 1][j].pos, next |-> e.chains[b + 1][j].next,
                                      keys |-> [i \in 1..Len(e.chains[b + 1][j].slots) |-> e.chains[b + 1][j].slots[i][1]]]]

\* the logged state equals the (primed) model state
Matches(e, lv, sp, nk, mn, ov, fr) ==
  /\ e.level = lv /\ e.split = sp /\ e.nkeys = nk /\ e.nb = Len(mn) /\ e.novf = Len(ov)
  /\ e.free = fr
  /\ \A b \in 0..(Len(mn) - 1) : ObsChain(e, b) = ChainProj(mn, ov, b)

\* the hash recorded in every slot is the hash of the key the slot points at
SlotHashesOK(e) ==
  \A b \in 1..Len(e.chains) : \A j \in 1..Len(e.chains[b]) : \A i \in 1..Len(e.chains[b][j].slots) :
     LET s == e.chains[b][j].slots[i] IN s[1] \in TraceKeys /\ s[2] = TraceH[s[1]]

-----------------------------------------------------------------------------
TInit == /\ h = TraceH /\ l = 1 /\ rq = <<>> /\ TLCSet(1, 1)
         /\ level = 0 /\ split = 0 /\ nkeys = 0
         /\ main = <<EmptyB>> /\ ovf = <<>> /\ free = <<>>
         /\ live = [k \in TraceKeys |-> 0] /\ nops = 0

TReset == /\ Is("reset") /\ Step /\ rq' = <<>>
          /\ level' = 0 /\ split' = 0 /\ nkeys' = 0
          /\ main' = <<EmptyB>> /\ ovf' = <<>> /\ free' = <<>>
          /\ live' = [k \in TraceKeys |-> 0] /\ nops' = 0 /\ UNCHANGED h

\* A recovering Open rebuilds the index by inserting the surviving records in log order (recovery.go).  The "wal"
\* event logged right after such an Open lists those records; the model is emptied and they are replayed into it
\* by silent steps (LHIndex!Put / LHIndex!Del, no trace line consumed) ...
AllRecs(segs) == FoldLeft(LAMBDA acc, sg : acc \o [j \in 1..Len(sg.recs) |-> <<sg.recs[j][1], sg.recs[j][2]>>], <<>>, segs)
TRecBegin ==
  /\ Is("wal") /\ Ev.after \in {"recovered", "tear"} /\ Step /\ rq = <<>>
  /\ level' = 0 /\ split' = 0 /\ nkeys' = 0
  /\ main' = <<EmptyB>> /\ ovf' = <<>> /\ free' = <<>>
  /\ live' = [k \in TraceKeys |-> 0]
  /\ rq' = AllRecs(Ev.segs)
  /\ UNCHANGED <<h, nops>>
TRecStep ==
  /\ rq # <<>> /\ UNCHANGED l
  /\ IF Head(rq)[1] = "put" THEN Put(Head(rq)[2]) ELSE Del(Head(rq)[2])
  /\ rq' = Tail(rq)
\* ... and the index the real recovery built must then be the model's, bucket for bucket (a clean restart, "open",
\* falls under TSame: level, split pointer, counts, free list and every chain come back exactly as they were closed)
TOpened ==
  /\ Is("idx") /\ Ev.after \in {"recovered", "tear"} /\ Step /\ rq = <<>>
  /\ SlotHashesOK(Ev)
  /\ Matches(Ev, level, split, nkeys, main, ovf, free)
  /\ UNCHANGED <<vars, rq>>

TPut == /\ Is("idx") /\ Ev.after = "put" /\ Step /\ rq = <<>> /\ rq' = rq
        /\ Put(Ev.k)
        /\ SlotHashesOK(Ev)
        /\ Matches(Ev, level', split', nkeys', main', ovf', free')

TDel == /\ Is("idx") /\ Ev.after = "del" /\ Step /\ rq = <<>> /\ rq' = rq
        /\ Del(Ev.k)
        /\ Matches(Ev, level', split', nkeys', main', ovf', free')

\* calls that must not change the shape of the index (compaction repoints slots, which the projection hides)
TSame == /\ Is("idx") /\ Ev.after \notin {"recovered", "tear", "put", "del"} /\ Step
         /\ Matches(Ev, level, split, nkeys, main, ovf, free)
         /\ rq = <<>> /\ UNCHANGED <<vars, rq>>

TOther == /\ l <= Len(Trace) /\ Trace[l].e \notin {"reset", "idx"} /\ Step /\ rq = <<>> /\ UNCHANGED <<vars, rq>>
          /\ ~(Trace[l].e = "wal" /\ Trace[l].after \in {"recovered", "tear"})

TNext == TReset \/ TRecBegin \/ TRecStep \/ TOpened \/ TPut \/ TDel \/ TSame \/ TOther
TSpec == TInit /\ [][TNext]_tvars

HighWater == TLCSet(1, IF TLCGet(1) >= l THEN TLCGet(1) ELSE l)
Accepted  == IF TLCGet(1) = Len(Trace) + 1 THEN TRUE
             ELSE PrintT(<<"REJECTED-AT", TLCGet(1), Len(Trace)>>) /\ FALSE
=============================================================================
