------------------------------ MODULE LHIndex ------------------------------
(***************************************************************************)
(* Layer B, part 2: pogreb's on-disk linear-hashing index (index.go,       *)
(* bucket.go, iterator.go), transcribed at the grain of its algorithms:    *)
(*                                                                         *)
(*   bucketIndex          level / split-pointer addressing                 *)
(*   get / delete         walk the chain, stop scanning a bucket at its    *)
(*                        first empty slot; delete shifts the slots of     *)
(*                        ONE bucket left                                  *)
(*   findInsertionBucket  pinned: first empty slot of the chain wins       *)
(*                        (FixFind = FALSE); repaired: the whole chain is  *)
(*                        searched for the key first (FixFind = TRUE)      *)
(*   insert               a full last bucket gets an overflow bucket from  *)
(*                        the free list, else a new one                    *)
(*   split                rebuild the chain of the split bucket into two   *)
(*                        fresh chains, free the old overflow buckets      *)
(*                        afterwards                                       *)
(*   scan                 ItemIterator: every chain of every bucket        *)
(*                                                                         *)
(* C (slots per bucket) is 31 in the code; TLC explores C = 2 exhaustively *)
(* for EVERY assignment of hashes to keys (chosen in Init), which covers   *)
(* identical full hashes, equal low bits and distinct hashes alike.        *)
(***************************************************************************)
EXTENDS Integers, Sequences, FiniteSets, TLC

CONSTANTS Keys, HashDom, C, MaxOps, FixFind

VARIABLES
  h,        \* [Keys -> HashDom], fixed in Init
  level, split, nkeys,
  main,     \* sequence of buckets; bucket index b is main[b+1]; numBuckets = Len(main)
  ovf,      \* sequence of overflow buckets (offset = position)
  free,     \* sequence of freed overflow offsets
  live,     \* specification: [Keys -> current value (1 or 2), 0 = absent]
  nops

vars == <<h, level, split, nkeys, main, ovf, free, live, nops>>

EmptyB == [slots |-> <<>>, next |-> 0]
Pow2(n) == 2^n

BIdx(hv, lv, sp) == LET b == hv % Pow2(lv) IN IF b < sp THEN hv % Pow2(lv + 1) ELSE b

\* chain of bucket b as a sequence of locations
RECURSIVE OvfLocs(_, _, _)
OvfLocs(ov, off, fuel) == IF off = 0 \/ fuel = 0 THEN <<>> ELSE <<[m |-> FALSE, i |-> off]>> \o OvfLocs(ov, ov[off].next, fuel - 1)
Locs(mn, ov, b) == <<[m |-> TRUE, i |-> b + 1]>> \o OvfLocs(ov, mn[b + 1].next, Len(ov) + 1)
At(mn, ov, loc) == IF loc.m THEN mn[loc.i] ELSE ov[loc.i]

\* all slots of a chain, in scan order
RECURSIVE SlotsOf(_, _, _, _)
SlotsOf(mn, ov, ls, i) == IF i > Len(ls) THEN <<>> ELSE At(mn, ov, ls[i]).slots \o SlotsOf(mn, ov, ls, i + 1)

\* positions <<bucket position in chain, slot position>> holding key k among the first n buckets of the chain
Holders(mn, ov, ls, n, k) ==
  {<<i, j>> \in (1..n) \X (1..C) : j <= Len(At(mn, ov, ls[i]).slots) /\ At(mn, ov, ls[i]).slots[j].k = k}

FirstFree(mn, ov, ls) ==
  LET F == {i \in 1..Len(ls) : Len(At(mn, ov, ls[i]).slots) < C} IN
  IF F = {} THEN 0 ELSE CHOOSE i \in F : \A j \in F : i <= j

MinPos(S) == CHOOSE p \in S : \A q \in S : p[1] < q[1] \/ (p[1] = q[1] /\ p[2] <= q[2])

SetAt(mn, ov, loc, bkt) ==
  IF loc.m THEN [mn |-> [mn EXCEPT ![loc.i] = bkt], ov |-> ov]
  ELSE [mn |-> mn, ov |-> [ov EXCEPT ![loc.i] = bkt]]

\* index.get
Get(k) ==
  LET ls == Locs(main, ovf, BIdx(h[k], level, split))
      H  == Holders(main, ovf, ls, Len(ls), k)
  IN IF H = {} THEN 0 ELSE At(main, ovf, ls[MinPos(H)[1]]).slots[MinPos(H)[2]].v

\* take an overflow bucket: from the free list, else extend the file
Alloc(ov, fr) == IF fr # <<>> THEN [off |-> Head(fr), ov |-> ov, fr |-> Tail(fr)]
                 ELSE [off |-> Len(ov) + 1, ov |-> Append(ov, EmptyB), fr |-> fr]

-----------------------------------------------------------------------------
(* split: distribute the slots of the split bucket's chain over two fresh chains *)

\* writer state: [locs: locations of the chain built so far, bkts: their contents]
NewWriter(loc) == [locs |-> <<loc>>, bkts |-> <<EmptyB>>]

\* slotWriter.insert
WInsert(w, sl, ov, fr) ==
  LET n == Len(w.bkts) IN
  IF Len(w.bkts[n].slots) < C
  THEN [w |-> [w EXCEPT !.bkts[n].slots = Append(@, sl)], ov |-> ov, fr |-> fr]
  ELSE LET a == Alloc(ov, fr) IN
       [w  |-> [locs |-> Append(w.locs, [m |-> FALSE, i |-> a.off]),
                bkts |-> Append([w.bkts EXCEPT ![n].next = a.off], [slots |-> <<sl>>, next |-> 0])],
        ov |-> a.ov, fr |-> a.fr]

RECURSIVE Distribute(_, _, _, _, _, _, _, _, _)
Distribute(sls, i, wu, wn, ov, fr, ub, lv, sp) ==
  IF i > Len(sls) THEN [wu |-> wu, wn |-> wn, ov |-> ov, fr |-> fr]
  ELSE IF BIdx(h[sls[i].k], lv, sp) = ub
       THEN LET r == WInsert(wu, sls[i], ov, fr) IN Distribute(sls, i + 1, r.w, wn, r.ov, r.fr, ub, lv, sp)
       ELSE LET r == WInsert(wn, sls[i], ov, fr) IN Distribute(sls, i + 1, wu, r.w, r.ov, r.fr, ub, lv, sp)

\* slotWriter.write
RECURSIVE WriteOut(_, _, _, _)
WriteOut(mn, ov, w, i) ==
  IF i > Len(w.locs) THEN [mn |-> mn, ov |-> ov]
  ELSE LET r == SetAt(mn, ov, w.locs[i], w.bkts[i]) IN WriteOut(r.mn, r.ov, w, i + 1)

OvfOffsets(ls) == [j \in 1..(Len(ls) - 1) |-> ls[j + 1].i]

SplitState(mn, ov, fr, lv, sp) ==
  LET ub   == sp
      mn1  == Append(mn, EmptyB)
      sp1  == IF sp + 1 = Pow2(lv) THEN 0 ELSE sp + 1
      lv1  == IF sp + 1 = Pow2(lv) THEN lv + 1 ELSE lv
      ls   == Locs(mn, ov, ub)
      sls  == SlotsOf(mn, ov, ls, 1)
      d    == Distribute(sls, 1, NewWriter([m |-> TRUE, i |-> ub + 1]), NewWriter([m |-> TRUE, i |-> Len(mn1)]),
                         ov, fr, ub, lv1, sp1)
      w1   == WriteOut(mn1, d.ov, d.wn, 1)
      w2   == WriteOut(w1.mn, w1.ov, d.wu, 1)
  IN [mn |-> w2.mn, ov |-> w2.ov, fr |-> d.fr \o OvfOffsets(ls), lv |-> lv1, sp |-> sp1]

-----------------------------------------------------------------------------
Busy == nops < MaxOps
\* a value different from the current one (a stale slot is then always distinguishable)
NewVal(k) == IF live[k] = 1 THEN 2 ELSE 1
HD4 == 0..3
HD8 == 0..7
KeySym == Permutations(Keys)

\* index.put
Put(k) ==
  /\ Busy
  /\ LET b    == BIdx(h[k], level, split)
         ls   == Locs(main, ovf, b)
         ff   == FirstFree(main, ovf, ls)
         rng  == IF FixFind \/ ff = 0 THEN Len(ls) ELSE ff        \* how far the key is searched
         H    == Holders(main, ovf, ls, rng, k)
         sl   == [k |-> k, v |-> NewVal(k)]
     IN IF H # {}
        THEN \* overwrite the existing slot
             LET p == MinPos(H)
                 r == SetAt(main, ovf, ls[p[1]], [At(main, ovf, ls[p[1]]) EXCEPT !.slots[p[2]] = sl])
             IN main' = r.mn /\ ovf' = r.ov /\ UNCHANGED <<free, nkeys, level, split>>
        ELSE LET ins == IF ff # 0
                        THEN LET r == SetAt(main, ovf, ls[ff], [At(main, ovf, ls[ff]) EXCEPT !.slots = Append(@, sl)])
                             IN [mn |-> r.mn, ov |-> r.ov, fr |-> free]
                        ELSE LET a    == Alloc(ovf, free)
                                 last == ls[Len(ls)]
                                 r1   == SetAt(main, a.ov, last, [At(main, a.ov, last) EXCEPT !.next = a.off])
                                 r2   == SetAt(r1.mn, r1.ov, [m |-> FALSE, i |-> a.off], [slots |-> <<sl>>, next |-> 0])
                             IN [mn |-> r2.mn, ov |-> r2.ov, fr |-> a.fr]
                 nk  == nkeys + 1
             IN IF 10 * nk > 7 * Len(ins.mn) * C
                THEN LET s == SplitState(ins.mn, ins.ov, ins.fr, level, split) IN
                     main' = s.mn /\ ovf' = s.ov /\ free' = s.fr /\ level' = s.lv /\ split' = s.sp /\ nkeys' = nk
                ELSE main' = ins.mn /\ ovf' = ins.ov /\ free' = ins.fr /\ nkeys' = nk /\ UNCHANGED <<level, split>>
  /\ live' = [live EXCEPT ![k] = NewVal(k)] /\ nops' = nops + 1
  /\ UNCHANGED h

\* index.delete
Del(k) ==
  /\ Busy
  /\ LET ls == Locs(main, ovf, BIdx(h[k], level, split))
         H  == Holders(main, ovf, ls, Len(ls), k)
     IN IF H = {} THEN UNCHANGED <<main, ovf, nkeys>>
        ELSE LET p   == MinPos(H)
                 bk  == At(main, ovf, ls[p[1]])
                 nsl == [j \in 1..(Len(bk.slots) - 1) |-> IF j < p[2] THEN bk.slots[j] ELSE bk.slots[j + 1]]
                 r   == SetAt(main, ovf, ls[p[1]], [bk EXCEPT !.slots = nsl])
             IN main' = r.mn /\ ovf' = r.ov /\ nkeys' = nkeys - 1
  /\ live' = [live EXCEPT ![k] = 0] /\ nops' = nops + 1
  /\ UNCHANGED <<h, level, split, free>>

Init ==
  /\ h \in [Keys -> HashDom]
  /\ level = 0 /\ split = 0 /\ nkeys = 0
  /\ main = <<EmptyB>> /\ ovf = <<>> /\ free = <<>>
  /\ live = [k \in Keys |-> 0] /\ nops = 0

Next == \E k \in Keys : Put(k) \/ Del(k)
Spec == Init /\ [][Next]_vars

-----------------------------------------------------------------------------
(* Properties                                                               *)
NB == Len(main)

\* ItemIterator on the quiescent index: all slots of all chains
RECURSIVE ScanFrom(_)
ScanFrom(b) == IF b >= NB THEN <<>> ELSE SlotsOf(main, ovf, Locs(main, ovf, b), 1) \o ScanFrom(b + 1)
Scan == ScanFrom(0)

LiveKeys == {k \in Keys : live[k] # 0}

\* C01: Get returns the last value put (version), nothing for absent keys
Represents == \A k \in Keys : Get(k) = live[k]
\* C01: Count
CountOK == nkeys = Cardinality(LiveKeys)
\* C01/C11: a full scan of the quiescent index yields every live key exactly once, with its current value
ScanExact == /\ Len(Scan) = Cardinality(LiveKeys)
             /\ {<<Scan[i].k, Scan[i].v>> : i \in 1..Len(Scan)} = {<<k, live[k]>> : k \in LiveKeys}

\* structure
LinkedOvf == UNION {{Locs(main, ovf, b)[j].i : j \in 2..Len(Locs(main, ovf, b))} : b \in 0..(NB - 1)}
WellFormed ==
  /\ NB = Pow2(level) + split
  /\ \A b \in 0..(NB - 1) : \A j \in 1..Len(SlotsOf(main, ovf, Locs(main, ovf, b), 1)) :
        BIdx(h[SlotsOf(main, ovf, Locs(main, ovf, b), 1)[j].k], level, split) = b       \* every slot is in the chain its hash maps to
  /\ \A i, j \in 1..Len(free) : i # j => free[i] # free[j]                               \* no double free
  /\ {free[i] : i \in 1..Len(free)} \cap LinkedOvf = {}                                   \* free buckets are not linked
  /\ \A b1, b2 \in 0..(NB - 1) : b1 # b2 =>
        {Locs(main, ovf, b1)[j].i : j \in 2..Len(Locs(main, ovf, b1))} \cap {Locs(main, ovf, b2)[j].i : j \in 2..Len(Locs(main, ovf, b2))} = {}

\* C11's monotone argument: a split moves keys only from the split bucket to the NEW LAST bucket,
\* so a scan that walks bucket indexes upward and re-reads the bucket count cannot miss a key it has passed
SplitMovesForward ==
  [][\A k \in Keys : (live[k] # 0 /\ live'[k] # 0 /\ BIdx(h[k], level, split) # BIdx(h[k], level', split'))
        => BIdx(h[k], level', split') = Len(main') - 1]_vars

View == <<h, level, split, nkeys, main, ovf, free, live>>
=============================================================================
