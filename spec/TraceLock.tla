------------------------------ MODULE TraceLock ------------------------------
(***************************************************************************)
(* Layer A for C13 and its trace validation: the lock of a database        *)
(* directory as a linearizable object.                                     *)
(*                                                                         *)
(*   open(p)  -> ok(existing) | locked      close(p) -> ok      die(p)     *)
(*                                                                         *)
(* owner = the process holding the directory open (at most one by          *)
(* construction of the specification); unclean = the last session did not  *)
(* complete Close.  A recording of the real lock code driven through an    *)
(* interleaving of its system calls is accepted iff some placement of the  *)
(* linearization points explains every result.                             *)
(***************************************************************************)
EXTENDS Integers, Sequences, FiniteSets, TLC, Json, IOUtils

Trace == ndJsonDeserialize(IOEnv.TRACE)
Procs == 0..5

VARIABLES l, owner, unclean, lp
lvars == <<l, owner, unclean, lp>>

Idle == [st |-> "idle"]
Ev == Trace[l]
Is(e) == l <= Len(Trace) /\ Trace[l].e = e
Step == l' = l + 1

LInit == l = 1 /\ owner = -1 /\ unclean = FALSE /\ lp = [p \in Procs |-> Idle] /\ TLCSet(1, 1)

LReset == Is("reset") /\ Step /\ owner' = -1 /\ unclean' = FALSE /\ lp' = [p \in Procs |-> Idle]

\* `ov': the call overlapped (in real time) a call of another process
LInv == Is("lk_inv") /\ Step /\ lp[Ev.p].st = "idle"
        /\ lp' = [q \in Procs |->
                    IF q = Ev.p THEN [st |-> "inv", op |-> Ev.op, ov |-> \E x \in Procs \ {q} : lp[x].st # "idle"]
                    ELSE IF lp[q].st = "idle" THEN lp[q] ELSE [lp[q] EXCEPT !.ov = TRUE]]
        /\ UNCHANGED <<owner, unclean>>

\* the sequential meaning of the call, applied at a silent step
LLin(p) ==
  /\ lp[p].st = "inv"
  /\ IF lp[p].op = "open"
     THEN IF owner = -1
          THEN /\ owner' = p /\ unclean' = TRUE
               /\ lp' = [lp EXCEPT ![p] = [st |-> "lin", op |-> "open", ok |-> TRUE, was |-> unclean, ov |-> lp[p].ov]]
          ELSE /\ lp' = [lp EXCEPT ![p] = [st |-> "lin", op |-> "open", ok |-> FALSE, was |-> unclean, ov |-> lp[p].ov]]
               /\ UNCHANGED <<owner, unclean>>
     ELSE \* close
          /\ owner = p
          /\ owner' = -1 /\ unclean' = FALSE
          /\ lp' = [lp EXCEPT ![p] = [st |-> "lin", op |-> "close", ok |-> TRUE, was |-> FALSE, ov |-> lp[p].ov]]
  /\ UNCHANGED l

\* just-in-time: only when the next event is the response of a call that has not taken effect
LLinJ == Is("lk_ret") /\ lp[Ev.p].st = "inv" /\ \E p \in Procs : LLin(p)

LRet ==
  /\ Is("lk_ret") /\ Step
  /\ lp[Ev.p].st = "lin"
  /\ LET r == lp[Ev.p] IN
     IF r.op = "open"
     THEN /\ Ev.ok = r.ok
          /\ ~Ev.ok => (Ev.ek = "locked" /\ Ev.before = Ev.after)        \* a failed Open changes nothing
          /\ (Ev.ok /\ r.was) => Ev.existing                              \* an unclean directory is always recovered
          /\ (Ev.ok /\ ~r.was /\ ~r.ov) => ~Ev.existing                   \* a clean one is not (a needless recovery by an Open
                                                                          \* that overlapped other calls is tolerated: it changes no contents)
     ELSE Ev.ok
  /\ lp' = [lp EXCEPT ![Ev.p] = Idle]
  /\ UNCHANGED <<owner, unclean>>

\* the holder dies: the kernel releases its descriptor, the lock file stays
LDie == Is("lk_die") /\ Step /\ owner = Ev.p /\ lp[Ev.p].st = "idle"
        /\ owner' = -1 /\ UNCHANGED <<unclean, lp>>

LNote == Is("note") /\ Step /\ UNCHANGED <<owner, unclean, lp>>

LNext == LReset \/ LInv \/ LLinJ \/ LRet \/ LDie \/ LNote
LSpec == LInit /\ [][LNext]_lvars

HighWater == TLCSet(1, IF TLCGet(1) >= l THEN TLCGet(1) ELSE l)
Accepted  == IF TLCGet(1) = Len(Trace) + 1 THEN TRUE
             ELSE PrintT(<<"REJECTED-AT", TLCGet(1), Len(Trace)>>) /\ FALSE
=============================================================================
