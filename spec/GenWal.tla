------------------------------- MODULE GenWal -------------------------------
(***************************************************************************)
(* Behaviour export: Wal.tla with a history variable of API-level events.  *)
(* The VIEW of the config hides `hist', so TLC expands every distinct      *)
(* state once and prints one behaviour (BFS-shortest prefix + the          *)
(* transition) per generated transition.  lib/behaviours.py turns them     *)
(* into programs that the harness replays on the real code, realising the  *)
(* environment choices TLC made: where the process dies (between calls or  *)
(* inside an append), into which gap of a compaction a writer slips, when  *)
(* Sync/Close/Open happen and when the power fails.                        *)
(***************************************************************************)
EXTENDS Wal, Json

VARIABLE hist
gvars == <<vars, hist>>

E(a) == hist' = Append(hist, a)

GInit == Init /\ hist = <<>>

GNext ==
  \/ \E k \in Keys : \E v \in Vals : Put(k, v) /\ E([op |-> "put", k |-> k, v |-> v])
  \/ \E k \in Keys : Del(k) /\ E([op |-> "del", k |-> k])
  \/ TornPut /\ E([op |-> "tornput"])
  \/ Crash /\ E([op |-> "crash"])
  \/ Recover /\ E([op |-> "recover"])
  \/ Pick /\ E([op |-> "pick"])
  \/ Seal /\ E([op |-> "cstep"])
  \/ Step /\ E([op |-> "cstep"])
  \/ Remove /\ E([op |-> "cstep"])
  \/ Sync /\ E([op |-> "sync"])
  \/ PowerLoss /\ E([op |-> "powerloss"])
  \/ Close /\ E([op |-> "close"])
  \/ OpenClean /\ E([op |-> "open"])

GSpec == GInit /\ [][GNext /\ PrintT(<<"BEH", ToJson(hist')>>)]_gvars
=============================================================================
