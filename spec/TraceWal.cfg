SPECIFICATION WSpec
CONSTRAINT HighWater
POSTCONDITION Accepted
CHECK_DEADLOCK FALSE
