-------------------------------- MODULE Wal --------------------------------
(***************************************************************************)
(* Layer B, part 1: pogreb's write-ahead log, compaction, clean restart,   *)
(* crash recovery and the durability of its files, at the grain of the     *)
(* implementation's critical sections:                                     *)
(*                                                                         *)
(*   Put / Del          one exclusive section each (db.go), incl. rollover *)
(*   Sync               datalog.sync                                       *)
(*   Pick, Seal, Step,  Compact = pickForCompaction, then per segment      *)
(*   Remove             seal / one section per record / removeSegment      *)
(*                      (compaction.go); writers interleave between them   *)
(*   Close, Open        db.Close / clean Open (metas persisted, reloaded)  *)
(*   Crash, TornPut     process death (between calls / inside the append)  *)
(*   PowerLoss          every file falls back to a prefix >= its synced    *)
(*                      length                                             *)
(*   Recover            db.recover(): replay segments by sequence id,      *)
(*                      truncate at the first invalid record               *)
(*                                                                         *)
(* The index is abstracted to a pointer map key -> (segment, offset); its  *)
(* linear-hashing structure is LHIndex.tla.  One Boolean constant per      *)
(* repaired defect: FALSE is the behaviour of the pinned commit and must   *)
(* yield a counterexample (cfg/wal_pinned_*.cfg), TRUE is the repaired     *)
(* code and must satisfy every invariant (cfg/wal_*.cfg).                  *)
(***************************************************************************)
EXTENDS Integers, Sequences, FiniteSets, TLC

CONSTANTS
  Keys, Vals,
  BigVals,       \* subset of Vals whose record does not fit even into an empty segment
  SegCap,        \* records per segment
  MaxSeg,        \* number of physical segment ids
  MaxOps, MaxCrash,
  Power,         \* enable Sync / PowerLoss
  Restart,       \* enable Close / clean Open
  \* --- repaired defects (FALSE = pinned commit) ---
  FixSize,            \* D2  recovery updates the append offset when it truncates
  FixNewestOnly,      \* D11/D9 only the newest segment (by sequence id) is reused for writes
  FixSealAtPick,      \* D8  compaction seals the picked segments in the picking critical section
  FixSyncOnSeal,      \* D3a a segment is fsynced when it is sealed
  FixSyncBeforeUnlink,\* D3b the destination is fsynced before a compacted segment is unlinked
  FixSyncAtClose,     \* D4  Close fsyncs everything before removing the lock
  FixSyncRemovedCur   \* D6b Sync tolerates a current segment removed by compaction

None   == "none"
Ids    == 0..(MaxSeg - 1)
NoSeg  == [ex |-> FALSE]
NullP  == [seg |-> -1, off |-> 0]

VARIABLES
  segs,     \* [Ids -> segment]: ex, seq, cells, mem (pogreb's file.size), full, dels, dur (synced prefix), pfull (Full flag in the meta file)
  cur,      \* current segment id (may dangle after compaction removed it)
  maxSeq,
  idx,      \* [Keys -> pointer]
  lockf,    \* lock file present
  open,     \* a process has the database open
  idxOK,    \* index and meta files on disk are those of the last Close and durable
  cq, csrc, cpos,   \* compaction: queue of picked segments, source, record cursor
  \* --- history variables (specification only) ---
  abs,      \* contents the client has been promised
  synced,   \* per key: contents at the last durability point
  since,    \* per key: values written after it
  lost,     \* a power loss happened since the last Recover/Open
  syncErr,  \* Sync failed on a removed current segment (D6b)
  nops, ncrash

vars == <<segs, cur, maxSeq, idx, lockf, open, idxOK, cq, csrc, cpos, abs, synced, since, lost, syncErr, nops, ncrash>>

GC == [t |-> "G", k |-> None, v |-> None]      \* torn / garbage cell
ZC == [t |-> "Z", k |-> None, v |-> None]      \* zero gap
IsRec(c) == c.t \in {"put", "del"}
Live == {i \in Ids : segs[i].ex}

Fresh(seqno) == [ex |-> TRUE, seq |-> seqno, cells |-> <<>>, mem |-> 0, full |-> FALSE, dels |-> 0, dur |-> 0, pfull |-> FALSE]

RECURSIVE VLen(_, _)
VLen(cs, i) == IF i > Len(cs) THEN Len(cs) ELSE IF IsRec(cs[i]) THEN VLen(cs, i + 1) ELSE i - 1

RECURSIVE OrderS(_, _)
OrderS(sg, S) == IF S = {} THEN <<>> ELSE
   LET m == CHOOSE i \in S : \A j \in S : sg[i].seq <= sg[j].seq IN <<m>> \o OrderS(sg, S \ {m})
Order(S) == OrderS(segs, S)

\* what recovery reconstructs from the segment files
RECURSIVE ApplyCells(_, _, _)
ApplyCells(m, cs, i) == IF i > Len(cs) \/ ~IsRec(cs[i]) THEN m ELSE
   ApplyCells([m EXCEPT ![cs[i].k] = IF cs[i].t = "put" THEN cs[i].v ELSE None], cs, i + 1)
RECURSIVE ReplayO(_, _, _)
ReplayO(sg, ord, m) == IF ord = <<>> THEN m ELSE ReplayO(sg, Tail(ord), ApplyCells(m, sg[Head(ord)].cells, 1))
Replay(sg) == ReplayO(sg, OrderS(sg, {i \in Ids : sg[i].ex}), [k \in Keys |-> None])

RECURSIVE IdxCells(_, _, _, _)
IdxCells(m, id, cs, i) == IF i > Len(cs) \/ ~IsRec(cs[i]) THEN m ELSE
   IdxCells([m EXCEPT ![cs[i].k] = IF cs[i].t = "put" THEN [seg |-> id, off |-> i] ELSE NullP], id, cs, i + 1)
RECURSIVE IdxO(_, _, _)
IdxO(sg, ord, m) == IF ord = <<>> THEN m ELSE IdxO(sg, Tail(ord), IdxCells(m, Head(ord), sg[Head(ord)].cells, 1))
NDel(cs) == Cardinality({i \in 1..VLen(cs, 1) : cs[i].t = "del"})

Lookup(k) == IF idx[k] = NullP THEN None ELSE
   LET s == segs[idx[k].seg] IN
   IF ~s.ex \/ idx[k].off > Len(s.cells) \/ ~IsRec(s.cells[idx[k].off]) \/ s.cells[idx[k].off].k # k THEN "BAD"
   ELSE s.cells[idx[k].off].v

-----------------------------------------------------------------------------
(* datalog.writeRecord / swapSegment                                        *)
FreeIds(sg) == {i \in Ids : ~sg[i].ex}
MaxSeqOf(sg) == LET S == {i \in Ids : sg[i].ex} IN IF S = {} THEN 0 ELSE sg[CHOOSE i \in S : \A j \in S : sg[j].seq <= sg[i].seq].seq

\* segments swapSegment may reuse
Reusable(sg, ms) == {i \in Ids : sg[i].ex /\ ~sg[i].full /\ (FixNewestOnly => sg[i].seq = ms)}

HasBig(s) == \E j \in 1..Len(s.cells) : s.cells[j].v \in BigVals
Fits(s, cell) == IF cell.v \in BigVals \/ HasBig(s) THEN FALSE ELSE s.mem < SegCap

\* the append succeeds whenever a target exists (a new file can always be created while ids are free)
CanAppend(sg, c, ms, cell) ==
  LET roll == ~sg[c].ex \/ sg[c].full \/ ~Fits(sg[c], cell) IN
  ~roll \/ FreeIds(sg) # {} \/ (Reusable(sg, ms) \ {c}) # {}

SealSync(s) == IF FixSyncOnSeal THEN [s EXCEPT !.full = TRUE, !.dur = Len(s.cells)] ELSE [s EXCEPT !.full = TRUE]

WAppend(sg, c, ms, cell) ==
  LET roll == ~sg[c].ex \/ sg[c].full \/ ~Fits(sg[c], cell)
      sg1  == IF roll /\ sg[c].ex /\ ~sg[c].full THEN [sg EXCEPT ![c] = SealSync(sg[c])] ELSE sg
      unf  == Reusable(sg1, ms)
      c1   == IF ~roll THEN c
              ELSE IF unf # {} THEN CHOOSE i \in unf : \A j \in unf : i <= j
              ELSE CHOOSE i \in FreeIds(sg1) : \A j \in FreeIds(sg1) : i <= j
      newf == roll /\ unf = {}
      sg2  == IF newf THEN [sg1 EXCEPT ![c1] = Fresh(ms + 1)] ELSE sg1
      s    == sg2[c1]
      pad  == [j \in 1..(s.mem - Len(s.cells)) |-> ZC]
      sg3  == [sg2 EXCEPT ![c1].cells = s.cells \o pad \o <<cell>>, ![c1].mem = s.mem + 1,
                          ![c1].dels = IF cell.t = "del" THEN s.dels + 1 ELSE s.dels]
  IN [segs |-> sg3, cur |-> c1, maxSeq |-> IF newf THEN ms + 1 ELSE ms, seg |-> c1, off |-> s.mem + 1]

Busy == open /\ nops < MaxOps

Put(k, v) ==
  /\ Busy /\ CanAppend(segs, cur, maxSeq, [t |-> "put", k |-> k, v |-> v])
  /\ LET r == WAppend(segs, cur, maxSeq, [t |-> "put", k |-> k, v |-> v]) IN
     /\ segs' = r.segs /\ cur' = r.cur /\ maxSeq' = r.maxSeq
     /\ idx' = [idx EXCEPT ![k] = [seg |-> r.seg, off |-> r.off]]
  /\ abs' = [abs EXCEPT ![k] = v] /\ since' = [since EXCEPT ![k] = @ \cup {v}] /\ nops' = nops + 1
  /\ UNCHANGED <<lockf, open, idxOK, cq, csrc, cpos, synced, lost, syncErr, ncrash>>

Del(k) ==
  /\ Busy /\ idx[k] # NullP /\ CanAppend(segs, cur, maxSeq, [t |-> "del", k |-> k, v |-> None])
  /\ LET r == WAppend(segs, cur, maxSeq, [t |-> "del", k |-> k, v |-> None]) IN
     /\ segs' = r.segs /\ cur' = r.cur /\ maxSeq' = r.maxSeq
     /\ idx' = [idx EXCEPT ![k] = NullP]
  /\ abs' = [abs EXCEPT ![k] = None] /\ since' = [since EXCEPT ![k] = @ \cup {None}] /\ nops' = nops + 1
  /\ UNCHANGED <<lockf, open, idxOK, cq, csrc, cpos, synced, lost, syncErr, ncrash>>

\* the process dies inside the append: a torn record at the append position
TornPut ==
  /\ open /\ ncrash < MaxCrash /\ segs[cur].ex /\ ~segs[cur].full /\ segs[cur].mem < SegCap
  /\ LET s == segs[cur]  pad == [j \in 1..(s.mem - Len(s.cells)) |-> ZC] IN
     segs' = [segs EXCEPT ![cur].cells = s.cells \o pad \o <<GC>>]
  /\ open' = FALSE /\ ncrash' = ncrash + 1 /\ cq' = <<>> /\ csrc' = -1 /\ cpos' = 0
  /\ UNCHANGED <<cur, maxSeq, idx, lockf, idxOK, abs, synced, since, lost, syncErr, nops>>

Crash ==
  /\ open /\ ncrash < MaxCrash
  /\ open' = FALSE /\ ncrash' = ncrash + 1 /\ cq' = <<>> /\ csrc' = -1 /\ cpos' = 0
  /\ UNCHANGED <<segs, cur, maxSeq, idx, lockf, idxOK, abs, synced, since, lost, syncErr, nops>>

Sync ==
  /\ Power /\ Busy
  /\ IF segs[cur].ex
     THEN /\ segs' = [segs EXCEPT ![cur].dur = Len(segs[cur].cells)]
          /\ synced' = abs /\ since' = [k \in Keys |-> {}] /\ UNCHANGED syncErr
     ELSE \* the current segment was removed by compaction
          /\ UNCHANGED segs
          /\ IF FixSyncRemovedCur
             THEN synced' = abs /\ since' = [k \in Keys |-> {}] /\ UNCHANGED syncErr
             ELSE syncErr' = TRUE /\ UNCHANGED <<synced, since>>
  /\ nops' = nops + 1
  /\ UNCHANGED <<cur, maxSeq, idx, lockf, open, idxOK, abs, cq, csrc, cpos, lost, ncrash>>

\* every file falls back to a prefix of what was written, at least its synced prefix
PowerLoss ==
  /\ Power /\ ncrash < MaxCrash /\ (open \/ ~lockf)
  /\ \E keep \in [Live -> 0..(SegCap + 1)] :
       /\ \A i \in Live : keep[i] >= segs[i].dur /\ keep[i] <= Len(segs[i].cells)
       /\ segs' = [i \in Ids |-> IF segs[i].ex
                                 THEN [segs[i] EXCEPT !.cells = SubSeq(segs[i].cells, 1, keep[i]), !.dur = keep[i]]
                                 ELSE segs[i]]
  /\ open' = FALSE /\ ncrash' = ncrash + 1 /\ cq' = <<>> /\ csrc' = -1 /\ cpos' = 0 /\ lost' = TRUE
  /\ UNCHANGED <<cur, maxSeq, idx, lockf, idxOK, abs, synced, since, syncErr, nops>>

-----------------------------------------------------------------------------
(* Open                                                                     *)

\* what the client may expect after a failure: the replay of the surviving files
AfterLoss(sg) == Replay(sg)

Recover ==
  /\ ~open /\ lockf
  /\ IF Live = {}
     THEN /\ segs' = [segs EXCEPT ![0] = Fresh(1)] /\ cur' = 0 /\ maxSeq' = 1
          /\ idx' = [k \in Keys |-> NullP]
          /\ abs' = IF lost THEN [k \in Keys |-> None] ELSE abs
          /\ synced' = IF lost THEN [k \in Keys |-> None] ELSE synced
          /\ since' = IF lost THEN [k \in Keys |-> {}] ELSE since
     ELSE LET ord    == Order(Live)
              newest == ord[Len(ord)]
              lowest == CHOOSE i \in Live : \A j \in Live : i <= j
              sg1    == [i \in Ids |-> IF ~segs[i].ex THEN segs[i] ELSE
                           LET vl == VLen(segs[i].cells, 1) IN
                           [segs[i] EXCEPT !.cells = SubSeq(segs[i].cells, 1, vl),
                                           !.dur  = IF segs[i].dur > vl THEN vl ELSE segs[i].dur,
                                           !.mem  = IF FixSize THEN vl ELSE Len(segs[i].cells),
                                           !.full = (i # newest), !.dels = NDel(segs[i].cells)]]
          IN /\ segs' = sg1
             /\ idx' = IdxO(sg1, ord, [k \in Keys |-> NullP])
             /\ cur' = IF FixNewestOnly THEN newest ELSE lowest
             /\ maxSeq' = segs[newest].seq
             /\ abs' = IF lost THEN AfterLoss(sg1) ELSE abs
             /\ synced' = IF lost THEN AfterLoss(sg1) ELSE synced
             /\ since' = IF lost THEN [k \in Keys |-> {}] ELSE since
  /\ open' = TRUE /\ lost' = FALSE /\ idxOK' = FALSE
  /\ UNCHANGED <<lockf, cq, csrc, cpos, syncErr, nops, ncrash>>

\* Close: write metas and index, (sync,) remove the lock.  No compaction in progress.
Close ==
  /\ Restart /\ Busy /\ cq = <<>> /\ csrc = -1
  /\ segs' = [i \in Ids |-> IF segs[i].ex
                            THEN [segs[i] EXCEPT !.pfull = segs[i].full,
                                                 !.dur = IF FixSyncAtClose THEN Len(segs[i].cells) ELSE segs[i].dur]
                            ELSE segs[i]]
  /\ open' = FALSE /\ lockf' = FALSE /\ idxOK' = FixSyncAtClose
  /\ synced' = IF FixSyncAtClose THEN abs ELSE synced
  /\ since' = IF FixSyncAtClose THEN [k \in Keys |-> {}] ELSE since
  /\ nops' = nops + 1
  /\ UNCHANGED <<cur, maxSeq, idx, cq, csrc, cpos, abs, lost, syncErr, ncrash>>

\* clean Open: trusts index and metas; the Full flag of an EMPTY segment is not reloaded
OpenClean ==
  /\ ~open /\ ~lockf
  /\ LET ms  == MaxSeqOf(segs)
         sg1 == [i \in Ids |-> IF segs[i].ex
                               THEN [segs[i] EXCEPT !.full = IF Len(segs[i].cells) = 0 THEN FALSE ELSE segs[i].pfull,
                                                    !.mem = Len(segs[i].cells)]
                               ELSE segs[i]]
         unf == Reusable(sg1, ms)
     IN IF lost /\ ~idxOK
        THEN \* the index files were never synced: one admissible outcome is an empty index
             /\ idx' = [k \in Keys |-> NullP]
             /\ IF unf # {} THEN segs' = sg1 /\ cur' = (CHOOSE i \in unf : \A j \in unf : i <= j) /\ maxSeq' = ms
                ELSE LET c1 == CHOOSE i \in FreeIds(sg1) : \A j \in FreeIds(sg1) : i <= j IN
                     segs' = [sg1 EXCEPT ![c1] = Fresh(ms + 1)] /\ cur' = c1 /\ maxSeq' = ms + 1
        ELSE /\ UNCHANGED idx
             /\ IF unf # {} THEN segs' = sg1 /\ cur' = (CHOOSE i \in unf : \A j \in unf : i <= j) /\ maxSeq' = ms
                ELSE LET c1 == CHOOSE i \in FreeIds(sg1) : \A j \in FreeIds(sg1) : i <= j IN
                     segs' = [sg1 EXCEPT ![c1] = Fresh(ms + 1)] /\ cur' = c1 /\ maxSeq' = ms + 1
  /\ FreeIds(segs) # {} \/ Reusable(segs, MaxSeqOf(segs)) # {}
  /\ open' = TRUE /\ lockf' = TRUE /\ lost' = FALSE
  /\ UNCHANGED <<idxOK, cq, csrc, cpos, abs, synced, since, syncErr, nops, ncrash>>

-----------------------------------------------------------------------------
(* Compaction (compaction.go).  Pick chooses ANY set of segments as eligible: this       *)
(* over-approximates every threshold and fragmentation value.                             *)
Picked(E) ==
  LET ord     == Order(Live)
      withDel == {j \in 1..Len(ord) : ord[j] \in E /\ segs[ord[j]].dels > 0}
  IN IF withDel = {} THEN SelectSeq(ord, LAMBDA i : i \in E)
     ELSE LET top == CHOOSE j \in withDel : \A j2 \in withDel : j2 <= j IN
          SubSeq(ord, 1, top) \o SelectSeq(SubSeq(ord, top + 1, Len(ord)), LAMBDA i : i \in E)

InSeq(s, x) == \E j \in 1..Len(s) : s[j] = x

Pick ==
  /\ Busy /\ cq = <<>> /\ csrc = -1
  /\ \E E \in (SUBSET Live) \ {{}} :
       /\ cq' = Picked(E)
       /\ segs' = IF FixSealAtPick
                  THEN [i \in Ids |-> IF InSeq(Picked(E), i) /\ ~segs[i].full THEN SealSync(segs[i]) ELSE segs[i]]
                  ELSE segs
  /\ nops' = nops + 1
  /\ UNCHANGED <<cur, maxSeq, idx, lockf, open, idxOK, csrc, cpos, abs, synced, since, lost, syncErr, ncrash>>

Seal ==
  /\ open /\ cq # <<>> /\ csrc = -1
  /\ csrc' = Head(cq) /\ cq' = Tail(cq) /\ cpos' = 1
  /\ segs' = IF segs[Head(cq)].full THEN segs ELSE [segs EXCEPT ![Head(cq)] = SealSync(segs[Head(cq)])]
  /\ UNCHANGED <<cur, maxSeq, idx, lockf, open, idxOK, abs, synced, since, lost, syncErr, nops, ncrash>>

Step ==
  /\ open /\ csrc # -1 /\ cpos <= Len(segs[csrc].cells)
  /\ LET c == segs[csrc].cells[cpos] IN
     IF IsRec(c) /\ c.t = "put" /\ idx[c.k] = [seg |-> csrc, off |-> cpos]
     THEN /\ CanAppend(segs, cur, maxSeq, c)
          /\ LET r == WAppend(segs, cur, maxSeq, c) IN
             /\ segs' = r.segs /\ cur' = r.cur /\ maxSeq' = r.maxSeq
             /\ idx' = [idx EXCEPT ![c.k] = [seg |-> r.seg, off |-> r.off]]
     ELSE UNCHANGED <<segs, cur, maxSeq, idx>>
  /\ cpos' = cpos + 1
  /\ UNCHANGED <<lockf, open, idxOK, abs, cq, csrc, synced, since, lost, syncErr, nops, ncrash>>

Remove ==
  /\ open /\ csrc # -1 /\ cpos > Len(segs[csrc].cells)
  /\ segs' = [i \in Ids |-> IF i = csrc THEN NoSeg
                            ELSE IF FixSyncBeforeUnlink /\ i = cur /\ segs[i].ex
                                 THEN [segs[i] EXCEPT !.dur = Len(segs[i].cells)] ELSE segs[i]]
  /\ csrc' = -1 /\ cpos' = 0
  /\ UNCHANGED <<cur, maxSeq, idx, lockf, open, idxOK, abs, cq, synced, since, lost, syncErr, nops, ncrash>>

-----------------------------------------------------------------------------
Init ==
  /\ segs = [i \in Ids |-> IF i = 0 THEN Fresh(1) ELSE NoSeg]
  /\ cur = 0 /\ maxSeq = 1 /\ idx = [k \in Keys |-> NullP] /\ lockf = TRUE /\ open = TRUE /\ idxOK = FALSE
  /\ cq = <<>> /\ csrc = -1 /\ cpos = 0
  /\ abs = [k \in Keys |-> None] /\ synced = [k \in Keys |-> None] /\ since = [k \in Keys |-> {}]
  /\ lost = FALSE /\ syncErr = FALSE /\ nops = 0 /\ ncrash = 0

Next ==
  \/ \E k \in Keys : (\E v \in Vals : Put(k, v)) \/ Del(k)
  \/ TornPut \/ Crash \/ Recover
  \/ Pick \/ Seal \/ Step \/ Remove
  \/ Sync \/ PowerLoss
  \/ Close \/ OpenClean

Spec == Init /\ [][Next]_vars

-----------------------------------------------------------------------------
(* Properties                                                               *)
TypeOK ==
  /\ cur \in Ids /\ maxSeq \in Nat /\ open \in BOOLEAN /\ lockf \in BOOLEAN
  /\ \A i \in Live : segs[i].mem >= Len(segs[i].cells) => TRUE

\* C01/C05: reads through the index give the promised contents
Represents == open => \A k \in Keys : Lookup(k) = abs[k]
\* C03/C04/C05: at every instant the files replay to the promised contents (crash safety)
ReplayOK   == (~lost /\ (open \/ lockf)) => Replay(segs) = abs
\* C02: a cleanly closed directory holds the promised contents in its index
CleanOK    == (~open /\ ~lockf /\ ~lost) => \A k \in Keys : Lookup(k) = abs[k]
\* C06/C09: after a power loss every key has its synced value or a later one
DurableOK  == lost => \A k \in Keys : Replay(segs)[k] \in ({synced[k]} \cup since[k])
\* C09: a cleanly closed database whose index survived... is opened through that index
CleanDurableOK == (lost /\ ~lockf /\ open) => \A k \in Keys : Lookup(k) \in ({synced[k]} \cup since[k])
\* C04: the append offset equals the file length (no zero gap will be written)
NoGap      == open => \A i \in Live : segs[i].mem = Len(segs[i].cells)
\* C15: Sync never fails
SyncOK     == ~syncErr
\* writes only ever go to the newest segment
CurIsNewest == (open /\ segs[cur].ex /\ ~segs[cur].full) => segs[cur].seq = MaxSeqOf(segs)

View == <<segs, cur, maxSeq, idx, lockf, open, idxOK, cq, csrc, cpos, abs, synced, since, lost, syncErr, ncrash>>
=============================================================================
