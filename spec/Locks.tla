-------------------------------- MODULE Locks --------------------------------
(***************************************************************************)
(* Layer B, part 5: pogreb's lock discipline (C10: no deadlock, Close      *)
(* waits for the background worker).                                       *)
(*                                                                         *)
(*   DB.mu            sync.RWMutex; Go semantics: a waiting writer blocks  *)
(*                    new readers, a writer waits for the readers to drain *)
(*   maintenanceMu    Compact: TryLock (busy error), Backup: Lock          *)
(*   ItemIterator.mu  held around the read-locked section of Next          *)
(*   closeWg          Close cancels the background worker and waits for    *)
(*                    it BEFORE taking DB.mu                               *)
(*                                                                         *)
(* Each process performs the lock operations of one public call, in the    *)
(* order the code performs them; TLC explores every interleaving, reports  *)
(* any state in which some process can never proceed (deadlock) and checks *)
(* that everything terminates under weak fairness.  This is a design-level *)
(* model: it is not bound to the code by traces (the race detector and the *)
(* watchdog of the stress driver observe the real thing).                  *)
(***************************************************************************)
EXTENDS Integers, FiniteSets, TLC

CONSTANTS Writers, Readers, Scanners, CompactSteps, WithBackup, WithWorker, WorkerTicks,
          CloseLocksFirst     \* FALSE = the code; TRUE = a Close that takes DB.mu before waiting for the worker (must deadlock)

Procs == Writers \cup Readers \cup Scanners \cup {"compact", "backup", "close", "worker"}

VARIABLES pc,        \* [Procs -> program counter]
          readers,   \* set of processes holding DB.mu for reading
          writer,    \* process holding DB.mu for writing, or "none"
          waitW,     \* processes waiting to write-lock DB.mu
          maint,     \* holder of maintenanceMu or "none"
          itmu,      \* [Scanners -> BOOLEAN] iterator mutex held
          cancelled, workerDone, steps, ticks

lvars == <<pc, readers, writer, waitW, maint, itmu, cancelled, workerDone, steps, ticks>>

Init ==
  /\ pc = [p \in Procs |-> IF p = "backup" /\ ~WithBackup THEN "done"
                           ELSE IF p = "worker" /\ ~WithWorker THEN "done" ELSE "start"]
  /\ readers = {} /\ writer = "none" /\ waitW = {} /\ maint = "none"
  /\ itmu = [s \in Scanners |-> FALSE]
  /\ cancelled = FALSE /\ workerDone = ~WithWorker
  /\ steps = [p \in {"compact", "worker"} |-> 0] /\ ticks = 0

Goto(p, l) == pc' = [pc EXCEPT ![p] = l]

\* sync.RWMutex
WantLock(p, next) == /\ waitW' = waitW \cup {p} /\ Goto(p, next) /\ UNCHANGED <<readers, writer>>
GetLock(p, next)  == /\ p \in waitW /\ writer = "none" /\ readers = {}
                     /\ writer' = p /\ waitW' = waitW \ {p} /\ Goto(p, next) /\ UNCHANGED readers
Unlock(p, next)   == /\ writer = p /\ writer' = "none" /\ Goto(p, next) /\ UNCHANGED <<readers, waitW>>
RLock(p, next)    == /\ writer = "none" /\ waitW = {}            \* a pending writer blocks new readers
                     /\ readers' = readers \cup {p} /\ Goto(p, next) /\ UNCHANGED <<writer, waitW>>
RUnlock(p, next)  == /\ p \in readers /\ readers' = readers \ {p} /\ Goto(p, next) /\ UNCHANGED <<writer, waitW>>

Rest == UNCHANGED <<maint, itmu, cancelled, workerDone, steps, ticks>>

\* Put / Delete / Sync: one exclusive section
Write(p) ==
  \/ pc[p] = "start" /\ WantLock(p, "wlock") /\ Rest
  \/ pc[p] = "wlock" /\ GetLock(p, "crit") /\ Rest
  \/ pc[p] = "crit" /\ Unlock(p, "done") /\ Rest

\* Get / Has / Count: one shared section
Read(p) ==
  \/ pc[p] = "start" /\ RLock(p, "crit") /\ Rest
  \/ pc[p] = "crit" /\ RUnlock(p, "done") /\ Rest

\* ItemIterator.Next: it.mu, then a shared section
Scan(p) ==
  \/ pc[p] = "start" /\ ~itmu[p] /\ itmu' = [itmu EXCEPT ![p] = TRUE] /\ Goto(p, "rl")
       /\ UNCHANGED <<readers, writer, waitW, maint, cancelled, workerDone, steps, ticks>>
  \/ pc[p] = "rl" /\ RLock(p, "crit") /\ Rest
  \/ pc[p] = "crit" /\ RUnlock(p, "un") /\ Rest
  \/ pc[p] = "un" /\ itmu' = [itmu EXCEPT ![p] = FALSE] /\ Goto(p, "done")
       /\ UNCHANGED <<readers, writer, waitW, maint, cancelled, workerDone, steps, ticks>>

\* Compact by process p (the API caller "compact" or the background worker): TryLock, then
\* CompactSteps exclusive sections (pick+seal, records, removal), then release
CompactBy(p, after) ==
  \/ /\ pc[p] = "c.try"
     /\ IF maint = "none" THEN maint' = p /\ Goto(p, "c.want") ELSE Goto(p, after) /\ UNCHANGED maint   \* busy error
     /\ UNCHANGED <<readers, writer, waitW, itmu, cancelled, workerDone, steps, ticks>>
  \/ pc[p] = "c.want" /\ WantLock(p, "c.lock") /\ Rest
  \/ pc[p] = "c.lock" /\ GetLock(p, "c.crit") /\ Rest
  \/ /\ pc[p] = "c.crit" /\ writer = p /\ writer' = "none"
     /\ steps' = [steps EXCEPT ![p] = @ + 1]
     /\ Goto(p, IF steps[p] + 1 >= CompactSteps THEN "c.rel" ELSE "c.want")
     /\ UNCHANGED <<readers, waitW, maint, itmu, cancelled, workerDone, ticks>>
  \/ /\ pc[p] = "c.rel" /\ maint = p /\ maint' = "none" /\ steps' = [steps EXCEPT ![p] = 0] /\ Goto(p, after)
     /\ UNCHANGED <<readers, writer, waitW, itmu, cancelled, workerDone, ticks>>

Compact ==
  \/ pc["compact"] = "start" /\ Goto("compact", "c.try") /\ UNCHANGED <<readers, writer, waitW>> /\ Rest
  \/ CompactBy("compact", "done")

\* Backup: maintenanceMu.Lock, a shared section to capture, copy without locks, release
Backup ==
  LET p == "backup" IN
  \/ pc[p] = "start" /\ maint = "none" /\ maint' = p /\ Goto(p, "rl")
       /\ UNCHANGED <<readers, writer, waitW, itmu, cancelled, workerDone, steps, ticks>>
  \/ pc[p] = "rl" /\ RLock(p, "crit") /\ Rest
  \/ pc[p] = "crit" /\ RUnlock(p, "copy") /\ Rest
  \/ pc[p] = "copy" /\ maint = p /\ maint' = "none" /\ Goto(p, "done")
       /\ UNCHANGED <<readers, writer, waitW, itmu, cancelled, workerDone, steps, ticks>>

\* background worker: select { ctx.Done: return; tick: Sync or Compact }
Worker ==
  LET p == "worker" IN
  \/ /\ pc[p] = "start"
     /\ \/ cancelled /\ workerDone' = TRUE /\ Goto(p, "done") /\ UNCHANGED ticks
        \/ ticks < WorkerTicks /\ ticks' = ticks + 1 /\ UNCHANGED workerDone
           /\ \/ Goto(p, "s.want")         \* db.Sync()
              \/ Goto(p, "c.try")          \* db.Compact()
     /\ UNCHANGED <<readers, writer, waitW, maint, itmu, cancelled, steps>>
  \/ pc[p] = "s.want" /\ WantLock(p, "s.lock") /\ Rest
  \/ pc[p] = "s.lock" /\ GetLock(p, "s.crit") /\ Rest
  \/ pc[p] = "s.crit" /\ Unlock(p, "start") /\ Rest
  \/ CompactBy(p, "start")

\* Close: cancel the worker, wait for it, then one exclusive section
Close ==
  LET p == "close" IN
  \/ pc[p] = "start" /\ cancelled' = TRUE /\ Goto(p, "wait")
       /\ UNCHANGED <<readers, writer, waitW, maint, itmu, workerDone, steps, ticks>>
  \/ pc[p] = "wait" /\ (CloseLocksFirst \/ workerDone) /\ Goto(p, "want") /\ UNCHANGED <<readers, writer, waitW>> /\ Rest
  \/ pc[p] = "want" /\ WantLock(p, "lock") /\ Rest
  \/ pc[p] = "lock" /\ GetLock(p, "crit") /\ Rest
  \/ pc[p] = "crit" /\ (CloseLocksFirst => workerDone) /\ Unlock(p, "done") /\ Rest

AllDone == \A p \in Procs : pc[p] = "done"

Next ==
  \/ \E p \in Writers : Write(p)
  \/ \E p \in Readers : Read(p)
  \/ \E p \in Scanners : Scan(p)
  \/ Compact \/ Backup \/ Worker \/ Close
  \/ AllDone /\ UNCHANGED lvars           \* terminated: not a deadlock

Spec == Init /\ [][Next]_lvars /\ WF_lvars(Next)

\* C10: everything terminates - no deadlock, no starvation under weak fairness of the whole system;
\* in particular Close returns and the worker has exited by then
Terminates == <>AllDone
CloseWaitsForWorker == [](pc["close"] = "done" => workerDone)
MutualExclusion == /\ (writer # "none" => readers = {})
                   /\ Cardinality({p \in Procs : pc[p] \in {"crit", "c.crit", "s.crit"} /\ writer = p}) <= 1
=============================================================================
