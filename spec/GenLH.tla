------------------------------- MODULE GenLH -------------------------------
(* Behaviour export of LHIndex.tla (see GenWal.tla): hash assignment + operations. *)
EXTENDS LHIndex, Json

VARIABLE hist
gvars == <<vars, hist>>
E(a) == hist' = Append(hist, a)
GInit == Init /\ hist = <<>>
GNext ==
  \/ \E k \in Keys : Put(k) /\ E([op |-> "put", k |-> k, h |-> h[k]])
  \/ \E k \in Keys : Del(k) /\ E([op |-> "del", k |-> k, h |-> h[k]])
GSpec == GInit /\ [][GNext /\ PrintT(<<"BEH", ToJson(hist')>>)]_gvars
=============================================================================
