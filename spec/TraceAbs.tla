------------------------------ MODULE TraceAbs ------------------------------
(***************************************************************************)
(* Trace validation against Layer A.  A file of ndjson events recorded     *)
(* from the real pogreb code (many recordings, each starting with a        *)
(* `reset' event) is accepted iff TLC can consume every event: each event  *)
(* is bound to a PogrebAbs action, the linearization steps Lin(t) are      *)
(* silent and placed by TLC.  Acceptance = the high-water mark of `l'.     *)
(***************************************************************************)
EXTENDS PogrebAbs, Json, IOUtils

Trace == ndJsonDeserialize(IOEnv.TRACE)

TraceThreads == 0..7

VARIABLE l           \* position of the next event

tvars == <<absvars, l>>
\* everPut (all pairs ever put) is a function of the position in the recording: it is left out of the state
\* fingerprint (VIEW), which otherwise costs time proportional to the length of the history at every step
TView == <<kv, pend, mode, back, cfg, seq, ver, acked, floor, closing, closedLin, img, scans, bk, held, l>>

Ev      == Trace[l]
Is(e)   == l <= Len(Trace) /\ Trace[l].e = e
Step    == l' = l + 1

DefaultCfg == [syncw |-> FALSE, strict |-> TRUE, bg |-> FALSE, dur |-> TRUE, ep |-> TRUE]

TInit ==
  /\ InitAbs(DefaultCfg)
  /\ l = 1
  /\ TLCSet(1, 1)

\* ep: keep the set of all pairs ever put (needed by stepped scans and damaged tails; switched off by drivers whose
\* histories are long and contain neither - every step would otherwise copy a set as long as the history)
TReset == Is("reset") /\ Step /\ ResetAbs([syncw |-> Ev.syncw, strict |-> Ev.strict, bg |-> Ev.bg, dur |-> Ev.dur,
                                              ep |-> IF "ep" \in DOMAIN Ev THEN Ev.ep ELSE TRUE])

TInv   == Is("inv") /\ Step /\ Inv(Ev.t, Ev)

TRet   == Is("ret") /\ Step /\
          (RetOk(Ev.t, Ev) \/ RetErr(Ev.t, Ev) \/ RetRacingRead(Ev.t, Ev) \/ ScanRet(Ev.t, Ev) \/ ScanDone(Ev.t, Ev))

\* Just-in-time linearization: a silent Lin step is only taken when the next event is the response
\* of a call that has not taken effect yet (then some pending calls are linearized, ending with that
\* one).  Every linearization order can be scheduled this way (delay each Lin as long as the order
\* allows), so nothing is lost, and the search does not branch at invocation events.
TLin   == /\ Is("ret") /\ pend[Ev.t].st = "inv"
          /\ UNCHANGED l /\ \E t \in Threads : Lin(t)

TScanStart == Is("scan_start") /\ Step /\ ScanStart(Ev.s)

TImage    == Is("image") /\ Step /\ Image(Ev.lossy, Ev.lock, Ev.failed)
TReopened == Is("reopened") /\ Step /\ (Reopened(Ev) \/ OpenClean(Ev))
TDamagedOpened == Is("damaged_opened") /\ Step /\ DamagedOpened(Ev)
TRestore  == Is("restore") /\ Step /\ Restore
TContinue == Is("continue") /\ Step /\ Continue
TReadAll  == Is("readall") /\ Step /\ ReadAll(Ev)
TBackupOpened == Is("backup_opened") /\ Step /\ BackupOpened(Ev)
THold     == Is("hold") /\ Step /\ Hold(Ev.id, Ev.d)
TObserve  == Is("observe") /\ Step /\ Observe(Ev.id, Ev.d)

-----------------------------------------------------------------------------
(* Stateless observations                                                   *)

\* C15: the directory after a successful Compact
Suffix(s, n)  == SubSeq(s, Len(s) - n + 1, Len(s))
EndsWith(s, x) == Len(s) >= Len(x) /\ Suffix(s, Len(x)) = x
\* names are logged together with their classification made by the independent decoder side:
\* [name, kind] with kind in {"seg", "segmeta", "fixed", "other"}; for "segmeta" `of' is its segment
FilesOK(files) ==
  LET segs == {f.name : f \in {g \in SeqSet(files) : g.kind = "seg"}} IN
  \A f \in SeqSet(files) :
     \/ f.kind \in {"seg", "fixed"}
     \/ f.kind = "segmeta" /\ f.of \in segs

TListing == Is("listing") /\ Step /\ UNCHANGED absvars
            /\ FilesOK(Ev.files)
            /\ \A n \in SeqSet(Ev.removed) : \A f \in SeqSet(Ev.files) :
                   f.name # n /\ ~(f.kind = "segmeta" /\ f.of = n)
            /\ Len(Ev.removed) = Ev.reported

\* C15: resources are bounded by the live data, not by history
\* (lock, db meta, index meta, two index files + one meta per segment; two descriptors for the index,
\* one per segment, the lock; one mapping per file on the memory-mapped file system; bytes: compaction
\* keeps segments whose garbage share is below the threshold (0.3 in these runs) plus the index)
TRound == Is("round") /\ Step /\ UNCHANGED absvars
          /\ Ev.files <= 2 * Ev.segs + 6
          /\ Ev.fds   <= Ev.fds0 + Ev.segs + 6
          /\ Ev.maps  <= Ev.maps0 + Ev.segs + 4
          /\ Ev.bytes <= 3 * Ev.live + 6 * Ev.maxseg + 16384

\* C17: the same program on several file systems
AllEqual(s) == \A i \in 1..Len(s) : s[i] = s[1]
TFsCmp == Is("fscmp") /\ Step /\ UNCHANGED absvars
          /\ AllEqual(Ev.results) /\ AllEqual(Ev.segbytes)

\* C13: a competing Open while the database is open fails with "locked" and changes nothing
TOpenLocked == Is("open_locked") /\ Step /\ UNCHANGED absvars
               /\ mode = "open"
               /\ ~Ev.ok /\ Ev.ek = "locked" /\ Ev.before = Ev.after

\* C18: the segment files of a cleanly closed database, read by an independent decoder of the
\* documented format and replayed in sequence order, give exactly the contents
TDecoded == Is("decoded") /\ Step /\ UNCHANGED absvars
            /\ mode = "closed" /\ Ev.kv = kv

\* C18: a directory written by the pinned version was opened by the current code: identical
\* contents, recovery exactly if it had been left unclean; the recording goes on with that state
TGoldenOpened == Is("golden_opened") /\ Step
                 /\ mode = "closed"
                 /\ Observed(Ev, Ev.kv) /\ Ev.kv = Ev.expect /\ Ev.recovered = ~Ev.clean
                 /\ kv' = Ev.kv /\ mode' = "open" /\ everPut' = Pairs(Ev.kv)
                 /\ UNCHANGED <<pend, back, cfg, seq, ver, acked, floor, closing, closedLin, img, scans, bk, held>>

\* C15: after Close returned, the process holds no descriptor and no mapping of the database directory
\* (a handle leaked per session is growth with history)
TClosedRes == Is("closed_res") /\ Step /\ Ev.fds = 0 /\ Ev.maps = 0 /\ UNCHANGED absvars

\* free-form information for the reader of a recording
TNote == (Is("note") \/ Is("wal") \/ Is("idx")) /\ Step /\ UNCHANGED absvars   \* "wal", "idx": projected log / index state, judged by TraceWal.tla / TraceLH.tla only

\* C10: these are never acceptable
\*   fault (panic / memory fault), stuck (no progress), leak (goroutine left after Close), race
\* => no action consumes them, the recording is rejected there.

TNext ==
  \/ TReset \/ TInv \/ TRet \/ TLin \/ TScanStart
  \/ TImage \/ TReopened \/ TDamagedOpened \/ TRestore \/ TContinue \/ TReadAll \/ TBackupOpened
  \/ TGoldenOpened \/ TDecoded \/ TOpenLocked \/ THold \/ TObserve \/ TListing \/ TRound \/ TFsCmp \/ TClosedRes \/ TNote

TSpec == TInit /\ [][TNext]_tvars

\* acceptance bookkeeping (-workers 1)
HighWater == TLCSet(1, MaxN(TLCGet(1), l))
Accepted  == IF TLCGet(1) = Len(Trace) + 1 THEN TRUE
             ELSE PrintT(<<"REJECTED-AT", TLCGet(1), Len(Trace)>>) /\ FALSE
=============================================================================
