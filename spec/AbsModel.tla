------------------------------ MODULE AbsModel ------------------------------
(***************************************************************************)
(* Layer A as a stand-alone, closed specification: the actions of          *)
(* PogrebAbs.tla driven by an IDEAL implementation (every call takes       *)
(* effect atomically at its linearization step and returns exactly the     *)
(* sequential result; a Sync makes everything linearized so far durable;   *)
(* a process crash loses nothing, a power loss falls back per key to any   *)
(* value between the durable and the current one).                         *)
(*                                                                         *)
(* TLC checks, for every interleaving of a few goroutines within small     *)
(* bounds, that the oracle of Layer A ACCEPTS this ideal implementation:   *)
(* every response it can produce is explained, every crash image and       *)
(* every admissible power-loss image it can leave satisfies CrashOK /      *)
(* LossOK.  This is the "no alarm on a correct implementation" side of the *)
(* oracle, and a vacuity check of its bookkeeping (floors never move       *)
(* backwards, acknowledged versions exist, admissible sets are non-empty). *)
(***************************************************************************)
EXTENDS PogrebAbs

CONSTANTS Keys, Vals, MaxSteps, SyncW

VARIABLES dkv,    \* what the ideal implementation has made durable
          steps

mvars == <<absvars, dkv, steps>>

Cfg == [syncw |-> SyncW, strict |-> TRUE, bg |-> FALSE, dur |-> TRUE, ep |-> TRUE]

MInit0 == InitAbs(Cfg) /\ dkv = EmptyMap /\ steps = 0

Calls == [op : {"put"}, k : Keys, v : Vals, kl : {1}, vl : {1}]
         \cup [op : {"del", "get", "has"}, k : Keys]
         \cup [op : {"count", "sync"}]

Tick == steps' = steps + 1 /\ steps < MaxSteps

\* the session starts (a fresh directory: nothing to recover)
MOpen == /\ mode = "closed" /\ kv = EmptyMap /\ seq = 0
         /\ OpenClean([err |-> "", recovered |-> FALSE, kv |-> EmptyMap, count |-> 0, has |-> <<>>, items |-> <<>>])
         /\ Tick /\ UNCHANGED dkv

MInv == \E t \in Threads, c \in Calls : Inv(t, c) /\ Tick /\ UNCHANGED dkv

\* the ideal implementation: the effect happens at Lin; Sync (and every write in sync mode) makes the
\* contents as of that instant durable
MLin == \E t \in Threads :
          /\ Lin(t)
          /\ dkv' = IF pend[t].op = "sync" \/ (SyncW /\ Mutator(pend[t].op)) THEN kv' ELSE dkv
          /\ UNCHANGED steps

\* ... and returns exactly the sequential result
Response(p) ==
  CASE p.op = "get"   -> [err |-> "", ek |-> "", nil |-> p.res.nil, v |-> p.res.v]
    [] p.op = "has"   -> [err |-> "", ek |-> "", found |-> p.res]
    [] p.op = "count" -> [err |-> "", ek |-> "", n |-> p.res]
    [] OTHER          -> [err |-> "", ek |-> ""]

MRet == \E t \in Threads : pend[t].st = "lin" /\ RetOk(t, Response(pend[t])) /\ Tick /\ UNCHANGED dkv

MNext == MOpen \/ MInv \/ MLin \/ MRet
MSpec == MInit0 /\ [][MNext]_mvars

-----------------------------------------------------------------------------
\* images the ideal implementation can leave behind
AllKeys == (DOMAIN kv) \cup (DOMAIN dkv)
PowerImages == { c \in [AllKeys -> {NilV} \cup {SomeV(v) : v \in Vals}] :
                   \A k \in AllKeys : c[k] \in {ValOf(kv, k), ValOf(dkv, k)} }
AsMap(c) == [k \in {x \in DOMAIN c : ~c[x].nil} |-> c[k].v]

\* the oracle accepts them
CrashAccepted == mode = "open" => CrashOK(kv)
PowerAccepted == mode = "open" => \A c \in PowerImages : LossOK(AsMap(c))

\* bookkeeping sanity
FloorsSane ==
  /\ \A k \in DOMAIN floor : k \in DOMAIN ver /\ \E i \in 1..Len(ver[k]) : ver[k][i].s = floor[k]
  /\ \A k \in DOMAIN acked : k \in DOMAIN ver /\ \E i \in 1..Len(ver[k]) : ver[k][i].s = acked[k]
  /\ \A k \in DOMAIN floor : floor[k] <= Get0(acked, k)       \* only acknowledged versions are demanded
FloorMonotone == [][\A k \in DOMAIN floor : k \in DOMAIN floor' /\ floor'[k] >= floor[k]]_mvars
\* the response of the ideal implementation is always accepted: a linearized call can return
Progress == \A t \in Threads : pend[t].st = "lin" => ENABLED RetOk(t, Response(pend[t]))

MView == <<kv, pend, mode, seq, ver, acked, floor, closing, closedLin, dkv>>
=============================================================================
