------------------------------- MODULE TraceWal -------------------------------
(***************************************************************************)
(* Strict mode: conformance of the real write-ahead log with Layer B.      *)
(*                                                                         *)
(* In strict recordings the harness logs, after every call, the projected  *)
(* implementation state of the log: every segment with its id, sequence    *)
(* id, Full flag, "is current", pogreb's own append offset, the file       *)
(* length and the records in it (read by the independent decoder).  This   *)
(* module checks every logged state against the invariants of Wal.tla and  *)
(* every step against the post-conditions of the corresponding Wal action  *)
(* (all variables are logged, so no search is needed).                     *)
(*                                                                         *)
(* A mismatch here is DRIFT - the code no longer follows the design that   *)
(* was model-checked - not a violation of a property: the orchestrator     *)
(* reports it in the evidence and does not fail the check.                 *)
(***************************************************************************)
EXTENDS Integers, Sequences, SequencesExt, FiniteSets, TLC, Json, IOUtils

Trace == ndJsonDeserialize(IOEnv.TRACE)

VARIABLES l, st, kv, maxseg
wvars == <<l, st, kv, maxseg>>

Ev == Trace[l]
Is(e) == l <= Len(Trace) /\ Trace[l].e = e
Step == l' = l + 1
HeaderSize == 512

SeqSet(s) == {s[i] : i \in 1..Len(s)}
PutF(f, k, v) == [x \in (DOMAIN f) \cup {k} |-> IF x = k THEN v ELSE f[x]]
DelF(f, k)    == [x \in (DOMAIN f) \ {k} |-> f[x]]

\* a logged state: sequence of segments ordered by sequence id
\* segment: [id, seq, full, cur, mem, len, recs], record: <<type, key, value, bytes>>
SumBytes(recs, n) == FoldLeft(LAMBDA acc, r : acc + r[4], 0, SubSeq(recs, 1, n))

ApplyRec(m, r) == IF r[1] = "put" THEN PutF(m, r[2], r[3]) ELSE DelF(m, r[2])
Replay(segs) == FoldLeft(LAMBDA m, sg : FoldLeft(ApplyRec, m, sg.recs), [x \in {} |-> ""], segs)

Seqs(segs) == {segs[i].seq : i \in 1..Len(segs)}
MaxSeq(segs) == IF segs = <<>> THEN 0 ELSE segs[Len(segs)].seq
Cur(segs) == {i \in 1..Len(segs) : segs[i].cur}
ById(segs, id) == {i \in 1..Len(segs) : segs[i].id = id}

\* segment meta data (segment.go: segmentMeta), which compaction's choice of segments rests on: the record counters
\* count the records in the file, DeletedKeys counts the put records no longer referenced (overwritten or deleted
\* later), DeletedBytes their bytes plus the bytes of the delete records (compaction drops those too)
Idx(n) == [j \in 1..n |-> j]
LastRec(segs) ==      \* key -> <<segment position, record position>> of the last record about that key
  FoldLeft(LAMBDA m, si : FoldLeft(LAMBDA m2, j : PutF(m2, segs[si].recs[j][2], <<si, j>>), m, Idx(Len(segs[si].recs))),
           [x \in {} |-> <<0, 0>>], Idx(Len(segs)))
SumOver(recs, S) == FoldLeft(LAMBDA acc, j : IF j \in S THEN acc + recs[j][4] ELSE acc, 0, Idx(Len(recs)))
MetaOK(segs) ==
  LET last == LastRec(segs) IN
  \A si \in 1..Len(segs) :
    LET recs == segs[si].recs
        P    == {j \in 1..Len(recs) : recs[j][1] = "put"}
        D    == {j \in 1..Len(recs) : recs[j][1] = "del"}
        dead == {j \in P : last[recs[j][2]] # <<si, j>>}
    IN /\ segs[si].puts = Cardinality(P)
       /\ segs[si].dels = Cardinality(D)
       /\ segs[si].dkeys = Cardinality(dead)
       /\ segs[si].dbytes = SumOver(recs, dead \cup D)
\* (evaluated where the meta data is rebuilt, persisted, reloaded or used - a wrong counter does not heal)
MetaAt(e) == e.after \in {"open", "recovered", "tear", "compact", "sync", "backup"} => MetaOK(e.segs)

-----------------------------------------------------------------------------
(* invariants of Wal.tla, evaluated on the observed state                   *)
StateOK(segs, m) ==
  /\ \A i \in 1..(Len(segs) - 1) : segs[i].seq < segs[i + 1].seq                 \* ordered, distinct sequence ids
  /\ \A i, j \in 1..Len(segs) : i # j => segs[i].id # segs[j].id
  /\ Cardinality(Cur(segs)) <= 1
  /\ \A i \in Cur(segs) : ~segs[i].full => segs[i].seq = MaxSeq(segs)           \* CurIsNewest
  /\ \A i \in 1..Len(segs) : ~segs[i].full => i \in Cur(segs) \/ segs[i].recs = <<>>   \* only the current segment is writable
  /\ \A i \in 1..Len(segs) : /\ segs[i].len = HeaderSize + SumBytes(segs[i].recs, Len(segs[i].recs))   \* the decoder accepts the whole file
                             /\ segs[i].mem = segs[i].len                                             \* NoGap
  /\ Replay(segs) = m                                                            \* ReplayOK: the files replay to the contents

\* segments that exist in both states, unchanged
Same(a, b) == a.id = b.id /\ a.seq = b.seq /\ a.recs = b.recs
Kept(old, new) == \A i \in 1..Len(old) : \E j \in 1..Len(new) : Same(old[i], new[j])

\* post-condition of Wal!Put / Wal!Del: exactly one record appended, to the current segment of the new
\* state; every other segment unchanged; a rollover seals the old current segment and the new segment
\* (if one was created) gets the next sequence id; the record rolled over iff it did not fit
AppendOK(old, new, rec) ==
  /\ Cardinality(Cur(new)) = 1
  /\ LET c == CHOOSE i \in Cur(new) : TRUE
         oc == Cur(old)
     IN
     /\ new[c].recs # <<>> /\ new[c].recs[Len(new[c].recs)] = rec
     /\ \A i \in 1..Len(old) :
          IF old[i].id = new[c].id /\ old[i].seq = new[c].seq
          THEN new[c].recs = Append(old[i].recs, rec)                         \* appended in place
          ELSE \E j \in 1..Len(new) : Same(old[i], new[j])                    \* untouched
     /\ (\A i \in 1..Len(old) : ~(old[i].id = new[c].id /\ old[i].seq = new[c].seq)) =>
          \* a new segment: next sequence id, the record is alone in it, the previous current one is sealed
          /\ new[c].seq = MaxSeq(old) + 1 \/ (old = <<>> /\ new[c].seq >= 1) \/ new[c].seq > MaxSeq(old)
          /\ new[c].recs = <<rec>>
          /\ \A i \in oc : \A j \in 1..Len(new) : (new[j].id = old[i].id /\ new[j].seq = old[i].seq) => new[j].full
          /\ \A i \in oc : old[i].full \/ old[i].len + rec[4] > maxseg            \* it rolled over because it did not fit
     /\ (\E i \in oc : old[i].id = new[c].id /\ old[i].seq = new[c].seq) =>
          \E i \in oc : ~old[i].full /\ old[i].len + rec[4] <= maxseg            \* it stayed because it fitted

\* post-condition of Compact: removed segments are gone; survivors keep their records (the current one may have
\* grown); no delete record was promoted; promoted records are live records of removed segments
CompactOK(old, new) ==
  LET removed == {i \in 1..Len(old) : \A j \in 1..Len(new) : ~(new[j].id = old[i].id /\ new[j].seq = old[i].seq)}
      added(j) == LET o == {i \in 1..Len(old) : old[i].id = new[j].id /\ old[i].seq = new[j].seq} IN
                  IF o = {} THEN new[j].recs
                  ELSE LET i == CHOOSE x \in o : TRUE IN SubSeq(new[j].recs, Len(old[i].recs) + 1, Len(new[j].recs))
      removedRecs == UNION {SeqSet(old[i].recs) : i \in removed}
  IN
  /\ \A j \in 1..Len(new) : \A i \in 1..Len(old) :
        (old[i].id = new[j].id /\ old[i].seq = new[j].seq) =>
           /\ Len(new[j].recs) >= Len(old[i].recs)
           /\ SubSeq(new[j].recs, 1, Len(old[i].recs)) = old[i].recs                 \* survivors only grow
  /\ \A j \in 1..Len(new) : \A r \in SeqSet(added(j)) : r[1] = "put" /\ r \in removedRecs  \* only puts of removed segments are copied
  /\ \A i \in removed : old[i].full \/ TRUE                                         \* (sealing is checked by StateOK of the next state)

-----------------------------------------------------------------------------
WInit == l = 1 /\ st = <<>> /\ kv = [x \in {} |-> ""] /\ maxseg = 0 /\ TLCSet(1, 1)

WReset == Is("reset") /\ Step /\ st' = <<>> /\ kv' = [x \in {} |-> ""] /\ maxseg' = Ev.maxseg

\* after Open / reopen / recovery: the state is taken as logged (judged by StateOK only)
\* after a simulated unclean shutdown (garbage appended to / bytes cut off the newest segment): the contents are
\* re-based on what the files replay to
WTorn == Is("wal") /\ Ev.after = "tear" /\ Step
         /\ kv' = Replay(Ev.segs)
         /\ StateOK(Ev.segs, kv') /\ MetaAt(Ev) /\ st' = Ev.segs /\ UNCHANGED maxseg

WOpened == Is("wal") /\ Ev.after \in {"open", "recovered"} /\ Step
           /\ StateOK(Ev.segs, kv) /\ MetaAt(Ev) /\ st' = Ev.segs /\ UNCHANGED <<kv, maxseg>>

WPut == Is("wal") /\ Ev.after = "put" /\ Step
        /\ kv' = PutF(kv, Ev.rec[2], Ev.rec[3])
        /\ StateOK(Ev.segs, kv')
        /\ AppendOK(st, Ev.segs, Ev.rec)
        /\ st' = Ev.segs /\ UNCHANGED maxseg

WDel == Is("wal") /\ Ev.after = "del" /\ Step
        /\ kv' = DelF(kv, Ev.rec[2])
        /\ StateOK(Ev.segs, kv')
        /\ (IF Ev.rec[2] \in DOMAIN kv
            THEN AppendOK(st, Ev.segs, Ev.rec) /\ Ev.rec[1] = "del"
            ELSE Kept(st, Ev.segs) /\ Len(Ev.segs) = Len(st))                     \* deleting an absent key writes nothing
        /\ st' = Ev.segs /\ UNCHANGED maxseg

WCompact == Is("wal") /\ Ev.after = "compact" /\ Step
            /\ StateOK(Ev.segs, kv) /\ MetaAt(Ev)
            /\ CompactOK(st, Ev.segs)
            /\ st' = Ev.segs /\ UNCHANGED <<kv, maxseg>>

\* calls that must not change the log
WSame == Is("wal") /\ Ev.after \in {"sync", "get", "has", "count", "items", "getappend", "backup"} /\ Step
         /\ StateOK(Ev.segs, kv) /\ MetaAt(Ev)
         /\ Kept(st, Ev.segs) /\ Len(Ev.segs) = Len(st)
         /\ st' = Ev.segs /\ UNCHANGED <<kv, maxseg>>

WOther == l <= Len(Trace) /\ Trace[l].e \notin {"reset", "wal"} /\ Step /\ UNCHANGED <<st, kv, maxseg>>

WNext == WReset \/ WOpened \/ WTorn \/ WPut \/ WDel \/ WCompact \/ WSame \/ WOther
WSpec == WInit /\ [][WNext]_wvars

HighWater == TLCSet(1, IF TLCGet(1) >= l THEN TLCGet(1) ELSE l)
Accepted  == IF TLCGet(1) = Len(Trace) + 1 THEN TRUE
             ELSE PrintT(<<"REJECTED-AT", TLCGet(1), Len(Trace)>>) /\ FALSE
=============================================================================
