------------------------------ MODULE LockProto ------------------------------
(***************************************************************************)
(* Layer B, part 3: the lock-file protocol of fs/os_unix.go + fs/os.go at  *)
(* system-call granularity (C13).                                          *)
(*                                                                         *)
(*   acquire:  stat(path); open(path, O_CREATE); flock(fd, EX|NB)          *)
(*             [VerifyInode: fstat(fd) vs stat(path), retry on mismatch]   *)
(*   release:  unlink(path); close(fd)                                     *)
(*   death:    the kernel closes fd (flock released), the file stays       *)
(*                                                                         *)
(* Every system call is one action, so TLC explores every interleaving of  *)
(* any number of openers with a closer.  VerifyInode = FALSE is the pinned *)
(* protocol and must violate AtMostOneHolder (D5).                         *)
(***************************************************************************)
EXTENDS Integers, FiniteSets, TLC

CONSTANTS Procs, MaxRounds, MaxInodes, VerifyInode, Deaths

VARIABLES
  path,      \* inode the lock path names, 0 = no such file
  nextIno,   \* inode allocator
  fd,        \* [Procs -> inode the process has open, 0 = none]
  flk,       \* [1..MaxInodes -> holder of the flock, 0 = free]
  pc,        \* [Procs -> "idle" | "stat" | "open" | "verify" | "holding" | "unlinked"]
  saw,       \* [Procs -> BOOLEAN] stat found the file
  rounds,    \* [Procs -> Nat]
  dirty,     \* ghost: the directory holds a session that has not completed Close
  got,       \* [Procs -> BOOLEAN] acquiredExisting reported by the last successful acquire
  missed,    \* ghost: an acquire succeeded on a dirty directory reporting "not existing" (recovery skipped)
  needless   \* ghost: an acquire succeeded on a clean directory reporting "existing"

vars == <<path, nextIno, fd, flk, pc, saw, rounds, dirty, got, missed, needless>>

Init ==
  /\ path = 0 /\ nextIno = 1
  /\ fd = [p \in Procs |-> 0] /\ flk = [i \in 1..MaxInodes |-> 0]
  /\ pc = [p \in Procs |-> "idle"] /\ saw = [p \in Procs |-> FALSE]
  /\ rounds = [p \in Procs |-> 0]
  /\ dirty = FALSE /\ got = [p \in Procs |-> FALSE] /\ missed = FALSE /\ needless = FALSE

\* os.Stat(name)
Stat(p) ==
  /\ pc[p] = "idle" /\ rounds[p] < MaxRounds
  /\ saw' = [saw EXCEPT ![p] = (path # 0)]
  /\ pc' = [pc EXCEPT ![p] = "stat"] /\ rounds' = [rounds EXCEPT ![p] = @ + 1]
  /\ UNCHANGED <<path, nextIno, fd, flk, dirty, got, missed, needless>>

\* os.OpenFile(name, O_RDWR|O_CREATE)
Open(p) ==
  /\ pc[p] = "stat"
  /\ IF path = 0
     THEN /\ nextIno <= MaxInodes
          /\ path' = nextIno /\ nextIno' = nextIno + 1 /\ fd' = [fd EXCEPT ![p] = nextIno]
     ELSE /\ fd' = [fd EXCEPT ![p] = path] /\ UNCHANGED <<path, nextIno>>
  /\ pc' = [pc EXCEPT ![p] = "open"]
  /\ UNCHANGED <<flk, saw, rounds, dirty, got, missed, needless>>

Acquired(p) ==
  /\ pc' = [pc EXCEPT ![p] = "holding"]
  /\ got' = [got EXCEPT ![p] = saw[p]]
  /\ missed' = (missed \/ (dirty /\ ~saw[p]))
  /\ needless' = (needless \/ (~dirty /\ saw[p]))
  /\ dirty' = TRUE

\* syscall.Flock(fd, LOCK_EX|LOCK_NB)
Flock(p) ==
  /\ pc[p] = "open"
  /\ IF flk[fd[p]] = 0
     THEN /\ flk' = [flk EXCEPT ![fd[p]] = p]
          /\ IF VerifyInode
             THEN pc' = [pc EXCEPT ![p] = "verify"] /\ UNCHANGED <<got, missed, needless, dirty>>
             ELSE Acquired(p)
          /\ UNCHANGED fd
     ELSE \* EWOULDBLOCK: the descriptor is dropped, Open fails with "locked"
          /\ fd' = [fd EXCEPT ![p] = 0] /\ pc' = [pc EXCEPT ![p] = "idle"]
          /\ UNCHANGED <<flk, got, missed, needless, dirty>>
  /\ UNCHANGED <<path, nextIno, saw, rounds>>

\* repaired protocol: the locked descriptor must still be the file the path names
Verify(p) ==
  /\ pc[p] = "verify"
  /\ IF path = fd[p]
     THEN Acquired(p) /\ UNCHANGED <<fd, flk>>
     ELSE \* stale inode: drop it and start over
          /\ flk' = [flk EXCEPT ![fd[p]] = 0] /\ fd' = [fd EXCEPT ![p] = 0]
          /\ pc' = [pc EXCEPT ![p] = "idle"]
          /\ UNCHANGED <<got, missed, needless, dirty>>
  /\ UNCHANGED <<path, nextIno, saw, rounds>>

\* Unlock: os.Remove(path)
Unlink(p) ==
  /\ pc[p] = "holding"
  /\ path' = 0                      \* whatever the path names is removed
  /\ pc' = [pc EXCEPT ![p] = "unlinked"]
  /\ dirty' = FALSE                 \* the session completed Close as far as the directory shows
  /\ UNCHANGED <<nextIno, fd, flk, saw, rounds, got, missed, needless>>

\* Unlock: f.Close()
CloseFd(p) ==
  /\ pc[p] = "unlinked"
  /\ flk' = [flk EXCEPT ![fd[p]] = 0] /\ fd' = [fd EXCEPT ![p] = 0]
  /\ pc' = [pc EXCEPT ![p] = "idle"]
  /\ UNCHANGED <<path, nextIno, saw, rounds, dirty, got, missed, needless>>

\* the process dies while holding the database open
Die(p) ==
  /\ Deaths /\ pc[p] = "holding"
  /\ flk' = [flk EXCEPT ![fd[p]] = 0] /\ fd' = [fd EXCEPT ![p] = 0]
  /\ pc' = [pc EXCEPT ![p] = "idle"]
  /\ UNCHANGED <<path, nextIno, saw, rounds, dirty, got, missed, needless>>

Next == \E p \in Procs : Stat(p) \/ Open(p) \/ Flock(p) \/ Verify(p) \/ Unlink(p) \/ CloseFd(p) \/ Die(p)
Spec == Init /\ [][Next]_vars

\* C13: at most one open DB per directory
AtMostOneHolder == Cardinality({p \in Procs : pc[p] = "holding"}) <= 1
\* C13: an unclean directory is always recovered by the next successful Open
MustRecover == ~missed
\* (a clean directory opened with a needless recovery: harmless, reported as a note)
NoNeedlessRecovery == ~needless
\* a failed acquire leaves no descriptor behind
NoLeak == \A p \in Procs : pc[p] = "idle" => fd[p] = 0

View == <<path, fd, flk, pc, saw, dirty, got, missed, needless, rounds>>
=============================================================================
