SPECIFICATION TSpec
CONSTANTS
  C = 31
  MaxOps = 100000000
  FixFind = TRUE
  Keys = {}
  HashDom = {}
  KeySym <- NoSym
CONSTRAINT HighWater
POSTCONDITION Accepted
CHECK_DEADLOCK FALSE
