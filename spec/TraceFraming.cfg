SPECIFICATION FTSpec
CONSTRAINT HighWater
POSTCONDITION Accepted
CHECK_DEADLOCK FALSE
