------------------------------- MODULE LHScan -------------------------------
(***************************************************************************)
(* Layer B, part 2b: an ItemIterator running concurrently with writers on  *)
(* the linear-hashing index of LHIndex.tla (C11, concurrent part).         *)
(*                                                                         *)
(* iterator.go: every Next call takes the read lock, and while its queue   *)
(* is empty and nextBucketIdx < numBuckets (RE-READ on every call) drains  *)
(* the whole chain of bucket nextBucketIdx into the queue.  Writers (Put   *)
(* with splits, Delete) run between two Next calls.                        *)
(*                                                                         *)
(* Checked: every pair returned was put at some time (truthful), and every *)
(* key that existed with an unchanged value from the start of the scan to  *)
(* its end has been returned (complete for untouched keys).  The argument  *)
(* is SplitMovesForward: a split moves keys only into the new LAST bucket, *)
(* which a scan that re-reads the bucket count still visits.               *)
(* CacheBound = TRUE models an iterator that reads numBuckets once, at its *)
(* creation: completeness must then fail (non-vacuity).                    *)
(***************************************************************************)
EXTENDS LHIndex

CONSTANTS CacheBound

VARIABLES spos,      \* nextBucketIdx
          sbound,    \* bucket count seen at creation (used only if CacheBound)
          sret,      \* set of <<key, value>> returned so far
          sdone,
          untouched, \* keys (with their values) not written since the scan started
          putLog     \* set of <<key, value>> ever put

svars == <<vars, spos, sbound, sret, sdone, untouched, putLog>>

SInit ==
  /\ Init
  /\ spos = 0 /\ sbound = 1 /\ sret = {} /\ sdone = FALSE
  /\ untouched = {} /\ putLog = {}

\* the scan is created when the writers have done Prefill operations (so that it starts on a non-trivial index)
Prefill == 3
Started == nops >= Prefill

\* writers; a write of k removes k from the untouched set
WPut(k) == /\ Put(k)
           /\ putLog' = putLog \cup {<<k, NewVal(k)>>}
           /\ untouched' = IF Started THEN {p \in untouched : p[1] # k} ELSE {<<x, live'[x]>> : x \in {y \in Keys : live'[y] # 0}}
           /\ sbound' = IF Started THEN sbound ELSE Len(main')
           /\ UNCHANGED <<spos, sret, sdone>>
WDel(k) == /\ Del(k)
           /\ untouched' = IF Started THEN {p \in untouched : p[1] # k} ELSE {<<x, live'[x]>> : x \in {y \in Keys : live'[y] # 0}}
           /\ sbound' = IF Started THEN sbound ELSE Len(main')
           /\ UNCHANGED <<spos, sret, sdone, putLog>>

\* one refill of the iterator queue (the whole chain of one bucket), returned to the caller
ScanStep ==
  /\ Started /\ ~sdone
  /\ LET bound == IF CacheBound THEN sbound ELSE Len(main) IN
     IF spos < bound /\ spos < Len(main)
     THEN /\ sret' = sret \cup {<<s.k, s.v>> : s \in {SlotsOf(main, ovf, Locs(main, ovf, spos), 1)[i] :
                                                      i \in 1..Len(SlotsOf(main, ovf, Locs(main, ovf, spos), 1))}}
          /\ spos' = spos + 1 /\ UNCHANGED sdone
     ELSE /\ sdone' = TRUE /\ UNCHANGED <<spos, sret>>
  /\ UNCHANGED <<vars, sbound, untouched, putLog>>

SNext == (\E k \in Keys : WPut(k) \/ WDel(k)) \/ ScanStep
SSpec == SInit /\ [][SNext]_svars

\* C11
Truthful == sret \subseteq putLog
CompleteForUntouched == sdone => untouched \subseteq sret

SView == <<h, level, split, nkeys, main, ovf, free, live, spos, sbound, sret, sdone, untouched, putLog>>
=============================================================================
