----------------------------- MODULE WalBackup -----------------------------
(***************************************************************************)
(* Layer B, part 1b: DB.Backup on top of the write-ahead log of Wal.tla    *)
(* (C12), at the grain of backup.go:                                       *)
(*                                                                         *)
(*   BCapture   maintenanceMu.Lock (no compaction from here on), then ONE  *)
(*              read-locked section: the list of segments and, for every   *)
(*              segment that is not Full, pogreb's own append offset       *)
(*   BCopy      per listed segment, WITHOUT any lock: a Full segment is    *)
(*              copied whole, the others up to the captured offset;        *)
(*              writers (Put, Del, rollover) run between the copies        *)
(*   BDone      the lock file is created in the copy (so that opening the  *)
(*              copy recovers it by replay), maintenanceMu released        *)
(*                                                                         *)
(* Checked: the finished copy replays to exactly the contents at BCapture  *)
(* (BackupOK) and the copy never fails (BackupNeverFails).  Variant names  *)
(* the behaviour modelled; every variant but "code" must be refuted:       *)
(*   "whole"     active segments are copied whole, not up to the offset    *)
(*   "nomaint"   Backup does not exclude compaction                        *)
(*   "listlate"  the segment list is taken in a second critical section,   *)
(*               after the offsets (a segment created in between has no    *)
(*               captured offset and is copied whole)                      *)
(***************************************************************************)
EXTENDS Wal

CONSTANTS Variant

VARIABLES bk   \* [stage, list, sizes, dir, abs]
bvars == <<vars, bk>>

NoBackup == [stage |-> "none", list |-> <<>>, sizes |-> [i \in Ids |-> -1], dir |-> [i \in Ids |-> NoSeg], abs |-> [k \in Keys |-> None]]

HoldsMaint == Variant # "nomaint"
Idle == cq = <<>> /\ csrc = -1

\* the read-locked section of Backup
BCapture ==
  /\ open /\ bk.stage = "none"
  /\ HoldsMaint => Idle
  /\ bk' = [stage |-> IF Variant = "listlate" THEN "sized" ELSE "captured",
            list  |-> IF Variant = "listlate" THEN <<>> ELSE Order(Live),
            sizes |-> [i \in Ids |-> IF segs[i].ex /\ ~segs[i].full THEN segs[i].mem ELSE -1],
            dir   |-> [i \in Ids |-> NoSeg],
            abs   |-> abs]
  /\ UNCHANGED vars

\* "listlate" only: the list is read in a second critical section
BList ==
  /\ open /\ bk.stage = "sized"
  /\ bk' = [bk EXCEPT !.stage = "captured", !.list = Order(Live)]
  /\ UNCHANGED vars

Min2(a, b) == IF a < b THEN a ELSE b

BCopy ==
  /\ open /\ bk.stage = "captured" /\ bk.list # <<>>
  /\ LET i == Head(bk.list) IN
     IF ~segs[i].ex
     THEN bk' = [bk EXCEPT !.stage = "failed"]            \* the source file is gone: Backup returns an error
     ELSE LET n == IF bk.sizes[i] = -1 \/ Variant = "whole" THEN Len(segs[i].cells)
                   ELSE Min2(bk.sizes[i], Len(segs[i].cells))
          IN bk' = [bk EXCEPT !.list = Tail(bk.list),
                              !.dir[i] = [ex |-> TRUE, seq |-> segs[i].seq, cells |-> SubSeq(segs[i].cells, 1, n)]]
  /\ UNCHANGED vars

BDone ==
  /\ open /\ bk.stage = "captured" /\ bk.list = <<>>
  /\ bk' = [bk EXCEPT !.stage = "done"]
  /\ UNCHANGED vars

\* the process dies: an unfinished backup is abandoned (a finished one stays)
Abandon == bk' = IF bk.stage = "done" THEN bk ELSE NoBackup

InBackup == bk.stage \in {"sized", "captured"}

BInit == Init /\ bk = NoBackup

BNext ==
  \/ (\E k \in Keys : (\E v \in Vals : Put(k, v)) \/ Del(k)) /\ UNCHANGED bk
  \/ (TornPut \/ Crash \/ PowerLoss) /\ Abandon
  \/ Recover /\ UNCHANGED bk
  \/ (HoldsMaint => ~InBackup) /\ Pick /\ UNCHANGED bk        \* Compact: TryLock on maintenanceMu fails during a backup
  \/ (Seal \/ Step \/ Remove) /\ UNCHANGED bk
  \/ Sync /\ UNCHANGED bk
  \/ ~InBackup /\ (Close \/ OpenClean) /\ UNCHANGED bk            \* the harness does not call Close inside Backup
  \/ BCapture \/ BList \/ BCopy \/ BDone

BSpec == BInit /\ [][BNext]_bvars

\* C12: the copy is the database at one instant between the call and the return of Backup
BackupOK == bk.stage = "done" => Replay(bk.dir) = bk.abs
BackupNeverFails == bk.stage # "failed"

BView == <<View, bk>>
=============================================================================
