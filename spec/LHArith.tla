------------------------------ MODULE LHArith ------------------------------
(***************************************************************************)
(* The address arithmetic of linear hashing (index.go: bucketIndex, split) *)
(* on its own, for real-sized numbers: LHIndex.tla explores whole index    *)
(* histories but only over tiny hash domains; this module checks the three *)
(* facts C01 and C11 rest on for every level up to MaxLevel, every split   *)
(* pointer and every hash value up to MaxHash (TLC evaluates the ASSUME).  *)
(*                                                                         *)
(*  1. every hash is addressed to an existing bucket;                      *)
(*  2. a split moves a key either nowhere or to the NEW LAST bucket - so a *)
(*     scan that walks the bucket indexes upwards and re-reads the bucket  *)
(*     count cannot miss a key it has already passed (C11);                *)
(*  3. only keys of the split bucket move (lookups of all other keys stay  *)
(*     valid without touching their buckets, C01).                         *)
(***************************************************************************)
EXTENDS Integers, TLC

CONSTANTS MaxLevel, MaxHash

Pow2(n) == 2^n
BIdx(hv, lv, sp) == LET b == hv % Pow2(lv) IN IF b < sp THEN hv % Pow2(lv + 1) ELSE b
NextLS(lv, sp) == IF sp + 1 = Pow2(lv) THEN <<lv + 1, 0>> ELSE <<lv, sp + 1>>
NB(lv, sp) == Pow2(lv) + sp

ArithOK ==
  \A lv \in 0..MaxLevel : \A sp \in 0..(Pow2(lv) - 1) : \A hv \in 0..MaxHash :
    LET n  == NextLS(lv, sp)
        b  == BIdx(hv, lv, sp)
        b2 == BIdx(hv, n[1], n[2])
    IN /\ b \in 0..(NB(lv, sp) - 1)
       /\ b2 \in {b, NB(lv, sp)}
       /\ (b # sp => b2 = b)
       /\ NB(n[1], n[2]) = NB(lv, sp) + 1

ASSUME ArithOK

\* non-vacuity: a split that advanced the pointer by two would move keys to a bucket that is not the last one
BadNextLS(lv, sp) == IF sp + 2 >= Pow2(lv) THEN <<lv + 1, 0>> ELSE <<lv, sp + 2>>
BadArith ==
  \A lv \in 1..MaxLevel : \A sp \in 0..(Pow2(lv) - 1) : \A hv \in 0..MaxHash :
    BIdx(hv, BadNextLS(lv, sp)[1], BadNextLS(lv, sp)[2]) \in {BIdx(hv, lv, sp), NB(lv, sp)}
ASSUME ~BadArith

VARIABLE x
Init == x = 0
Next == UNCHANGED x
Spec == Init /\ [][Next]_x
=============================================================================
