------------------------------- MODULE Framing -------------------------------
(***************************************************************************)
(* Layer B, part 4: record framing and the recovery iterator (segment.go   *)
(* segmentIterator.next, recovery.go recoveryIterator.next) over abstract  *)
(* segment contents (C08, C19).                                            *)
(*                                                                         *)
(* A segment body is a sequence of items:                                  *)
(*   valid    a complete record with a correct CRC                         *)
(*   badcrc   a complete record (claimed length fully present) whose CRC   *)
(*            does not match (a flipped bit in key, value or CRC)          *)
(*   short    a 6-byte header claiming `claim' bytes of which only n < claim*)
(*            are present (truncated record, garbage header, flipped        *)
(*            length bit)                                                  *)
(*   partial  1..5 bytes                                                   *)
(* `short' and `partial' swallow the rest of the file.                     *)
(*                                                                         *)
(* The iterator reads a header, allocates the claimed size (pinned code:   *)
(* BoundAlloc = FALSE) or first compares it with the bytes left            *)
(* (BoundAlloc = TRUE), reads, checks the CRC.  Recovery truncates the     *)
(* segment at the first item that is not valid and goes on with the next   *)
(* segment.                                                                *)
(***************************************************************************)
EXTENDS Integers, Sequences, FiniteSets, TLC

CONSTANTS BoundAlloc, MaxItems, Claims   \* Claims: claimed sizes to try for `short' items

HeaderSize == 512

\* bytes an item occupies in the file
Bytes(it) == it.n

RECURSIVE SumBytes(_, _)
SumBytes(items, k) == IF k = 0 THEN 0 ELSE Bytes(items[k]) + SumBytes(items, k - 1)

\* the documented format's verdict: the valid prefix
RECURSIVE ValidPrefixLen(_, _)
ValidPrefixLen(items, i) == IF i > Len(items) THEN Len(items)
                            ELSE IF items[i].kind = "valid" THEN ValidPrefixLen(items, i + 1) ELSE i - 1

-----------------------------------------------------------------------------
(* The iterator as a state machine                                          *)
VARIABLES items, pos, accepted, alloc, maxAlloc, truncAt, done

fvars == <<items, pos, accepted, alloc, maxAlloc, truncAt, done>>

Total == SumBytes(items, Len(items))
Left(p) == Total - SumBytes(items, p - 1)       \* bytes from item p to the end of the file

ItemSet == [kind : {"valid", "badcrc"}, n : {10, 30}, claim : {0}]
           \cup [kind : {"short"}, n : {6, 9, 20}, claim : Claims]
           \cup [kind : {"partial"}, n : {1, 5}, claim : {0}]

WellFormedTail(s) ==
  /\ \A i \in 1..Len(s) : s[i].kind \in {"short", "partial"} => i = Len(s)          \* they swallow the rest
  /\ \A i \in 1..Len(s) : s[i].kind = "short" => s[i].claim > s[i].n

Init ==
  /\ items \in UNION {[1..m -> ItemSet] : m \in 0..MaxItems}
  /\ WellFormedTail(items)
  /\ pos = 1 /\ accepted = 0 /\ alloc = 0 /\ maxAlloc = 0 /\ truncAt = -1 /\ done = FALSE

\* one call of segmentIterator.next
Step ==
  /\ ~done
  /\ IF pos > Len(items)
     THEN \* clean end of file: io.EOF on the header read
          done' = TRUE /\ UNCHANGED <<pos, accepted, alloc, maxAlloc, truncAt>>
     ELSE LET it == items[pos] IN
          CASE it.kind = "partial" ->
                 \* fewer than 6 bytes: io.ErrUnexpectedEOF, nothing allocated
                 /\ done' = TRUE /\ truncAt' = HeaderSize + SumBytes(items, pos - 1)
                 /\ UNCHANGED <<pos, accepted, alloc, maxAlloc>>
            [] it.kind = "short" ->
                 \* header read; the claimed record does not fit into what is left
                 /\ done' = TRUE /\ truncAt' = HeaderSize + SumBytes(items, pos - 1)
                 /\ alloc' = IF BoundAlloc THEN alloc ELSE alloc + it.claim
                 /\ maxAlloc' = IF BoundAlloc THEN maxAlloc ELSE IF it.claim > maxAlloc THEN it.claim ELSE maxAlloc
                 /\ UNCHANGED <<pos, accepted>>
            [] it.kind = "badcrc" ->
                 /\ done' = TRUE /\ truncAt' = HeaderSize + SumBytes(items, pos - 1)
                 /\ alloc' = alloc + it.n /\ maxAlloc' = IF it.n > maxAlloc THEN it.n ELSE maxAlloc
                 /\ UNCHANGED <<pos, accepted>>
            [] it.kind = "valid" ->
                 /\ pos' = pos + 1 /\ accepted' = accepted + 1
                 /\ alloc' = alloc + it.n /\ maxAlloc' = IF it.n > maxAlloc THEN it.n ELSE maxAlloc
                 /\ UNCHANGED <<done, truncAt>>
  /\ UNCHANGED items

FSpec == Init /\ [][Step]_fvars

\* C08: exactly the valid prefix is replayed, the file is cut right behind it
ReplaysValidPrefix == done => accepted = ValidPrefixLen(items, 1)
TruncatesThere     == done => (IF ValidPrefixLen(items, 1) = Len(items) THEN truncAt = -1
                               ELSE truncAt = HeaderSize + SumBytes(items, ValidPrefixLen(items, 1)))
\* C19: allocation is bounded by the bytes present, whatever the header claims
AllocBounded       == alloc <= Total /\ maxAlloc <= Total
Terminates         == <>done
=============================================================================
