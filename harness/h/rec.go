// Package h is the verification harness: it drives the real pogreb code and records what it
// did as ndjson events. It passes no judgement; TLC does (spec/TraceAbs.tla).
package h

import (
	"bufio"
	"encoding/json"
	"fmt"
	"os"
	"sort"
	"sync"
)

// Ev is one event.
type Ev map[string]interface{}

// Rec writes recordings (sequences of events starting with "reset") to an ndjson file.
type Rec struct {
	mu     sync.Mutex
	w      *bufio.Writer
	f      *os.File
	Events int
	Recs   int
	// Stats
	Images   int
	Distinct int
}

// NewRec creates a recorder.
func NewRec(path string) (*Rec, error) {
	f, err := os.Create(path)
	if err != nil {
		return nil, err
	}
	return &Rec{f: f, w: bufio.NewWriterSize(f, 1<<20)}, nil
}

// Emit writes one event.
func (r *Rec) Emit(ev Ev) {
	b, err := json.Marshal(ev)
	if err != nil {
		panic(err)
	}
	r.mu.Lock()
	r.w.Write(b)
	r.w.WriteByte('\n')
	r.Events++
	if ev["e"] == "reset" {
		r.Recs++
	}
	r.mu.Unlock()
}

// Close flushes the file.
func (r *Rec) Close() error {
	r.mu.Lock()
	defer r.mu.Unlock()
	if err := r.w.Flush(); err != nil {
		return err
	}
	return r.f.Close()
}

// Token turns arbitrary bytes into the string used in recordings. Short printable values are
// kept verbatim; anything else is replaced by length + digest.
func Token(b []byte) string {
	if len(b) <= 48 {
		ok := true
		for _, c := range b {
			if c < 0x20 || c > 0x7e || c == '"' || c == '\\' {
				ok = false
				break
			}
		}
		if ok {
			return string(b)
		}
	}
	return fmt.Sprintf("#%d:%016x", len(b), fnv64(b))
}

func fnv64(b []byte) uint64 {
	h := uint64(14695981039346656037)
	for _, c := range b {
		h ^= uint64(c)
		h *= 1099511628211
	}
	return h
}

// SortedPairs renders a map as a sorted list of pairs (stable samples).
func SortedPairs(m map[string]string) [][2]string {
	ks := make([]string, 0, len(m))
	for k := range m {
		ks = append(ks, k)
	}
	sort.Strings(ks)
	r := make([][2]string, 0, len(m))
	for _, k := range ks {
		r = append(r, [2]string{k, m[k]})
	}
	return r
}
