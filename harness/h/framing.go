package h

import (
	"encoding/binary"
	"fmt"
	"math/rand"
	"path/filepath"
	"runtime"
	"sort"
	"strings"
	"time"

	"verif/harness/crashfs"
)

// FItem is an abstract segment item (spec/Framing.tla) with its concrete bytes.
type FItem struct {
	Kind  string   `json:"kind"` // valid | badcrc | short | partial | junk
	N     int      `json:"n"`
	Claim int      `json:"claim"`
	Rec   []string `json:"rec"` // [type, key, value] for valid items
	How   string   `json:"how,omitempty"`
	bytes []byte
}

// FramingOpts selects the damage.
type FramingOpts struct {
	ID     string
	Seed   int64
	Claims bool // C19: garbage headers of all classes
}

func validItem(r DRec, raw []byte) FItem {
	t := "put"
	if r.Del {
		t = "del"
	}
	return FItem{Kind: "valid", N: r.Size, Rec: []string{t, Token(r.Key), Token(r.Val)}, bytes: raw[r.Offset : r.Offset+r.Size]}
}

func header(kl int, vl uint32, del bool) []byte {
	b := make([]byte, 6)
	binary.LittleEndian.PutUint16(b, uint16(kl))
	if del {
		vl |= 1 << 31
	}
	binary.LittleEndian.PutUint32(b[2:], vl)
	return b
}

// Framing builds a database, damages the tail of one segment, recovers it with the real code and
// records what happened next to the abstract description of the damage.
func Framing(rec *Rec, o FramingOpts) (claimMax int) {
	rng := rand.New(rand.NewSource(o.Seed))
	fs := crashfs.New()
	cfg := Cfg{FS: "crashfs", MaxSeg: []uint32{1024, 2048, 8192}[rng.Intn(3)], MinSeg: 1 << 30, MinFrag: 0.99}
	rec.Emit(Ev{"e": "reset", "syncw": false, "strict": true, "bg": false, "dur": false, "id": o.ID, "fs": "crashfs", "run": Ev{"cmd": "framing", "seed": o.Seed, "claims": o.Claims}})
	s := &Sess{R: rec, Cfg: cfg, Root: fs, Dir: "db", Universe: map[string][]byte{}}
	db, obs := OpenObserved(cfg, fs, "db", s.Universe)
	if obs.Err != "" {
		rec.Emit(Ev{"e": "fault", "what": obs.Err})
		return
	}
	nrec := 3 + rng.Intn(14)
	for i := 0; i < nrec; i++ {
		k := fmt.Sprintf("f%02d", rng.Intn(8))
		if rng.Intn(9) == 0 {
			k = "" // the empty key is admissible ...
		}
		s.use([]byte(k))
		if k == "" && rng.Intn(2) == 0 {
			// ... also with an empty value: the smallest valid record, six zero bytes and their checksum
			db.Put([]byte{}, []byte{})
			continue
		}
		if rng.Intn(5) == 0 {
			db.Delete([]byte(k))
			continue
		}
		vl := []int{0, 3, 40, 300, 495, 600, 4080, 5000}[rng.Intn(8)]
		if vl > 600 && rng.Intn(3) != 0 {
			vl = 20
		}
		db.Put([]byte(k), Expand(fmt.Sprintf("x%d_", i), vl))
	}
	if err := db.Close(); err != nil {
		rec.Emit(Ev{"e": "fault", "what": "close: " + err.Error()})
		return
	}
	// ground truth: what was written, read by the independent decoder
	type seg struct {
		name  string
		seq   int
		raw   []byte
		items []FItem
	}
	var segs []*seg
	for _, n := range ListDir(fs, "db") {
		if _, sq, ok := ParseSegmentName(n); ok {
			raw, _ := fs.ReadFile(filepath.Join("db", n))
			recs, end, err := DecodeSegment(raw)
			if err != nil || end != len(raw) {
				rec.Emit(Ev{"e": "fault", "what": fmt.Sprintf("independent decoder rejects segment %s written by the current code: end=%d len=%d err=%v", n, end, len(raw), err)})
				return
			}
			sg := &seg{name: n, seq: sq, raw: raw}
			for _, r := range recs {
				sg.items = append(sg.items, validItem(r, raw))
			}
			segs = append(segs, sg)
		}
	}
	sort.Slice(segs, func(i, j int) bool { return segs[i].seq < segs[j].seq })
	if len(segs) == 0 {
		return
	}
	// damage
	v := segs[rng.Intn(len(segs))]
	if rng.Intn(2) == 0 {
		v = segs[len(segs)-1]
	}
	garbage := func(n int) []byte {
		b := make([]byte, n)
		rng.Read(b)
		return b
	}
	extraValid := func() FItem {
		k, val := []byte(fmt.Sprintf("f%02d", rng.Intn(8))), []byte("after-damage")
		s.use(k)
		b := EncodeRecord(k, val, false)
		return FItem{Kind: "valid", N: len(b), Rec: []string{"put", Token(k), Token(val)}, bytes: b, How: "well-formed record after the damage"}
	}
	mode := rng.Intn(7)
	if o.Claims {
		mode = 5
	}
	switch {
	case mode == 0 && len(v.items) > 0:
		// cut inside a record
		j := rng.Intn(len(v.items))
		it := v.items[j]
		keep := 1 + rng.Intn(it.N-1)
		cut := FItem{Kind: "short", N: keep, Claim: it.N, bytes: it.bytes[:keep], How: "record cut short"}
		if keep < 6 {
			cut.Kind, cut.Claim = "partial", 0
		}
		v.items = append(v.items[:j:j], cut)
	case mode == 1 && len(v.items) > 0:
		// one flipped bit in key, value or checksum
		j := rng.Intn(len(v.items))
		it := v.items[j]
		b := append([]byte(nil), it.bytes...)
		pos := 6 + rng.Intn(it.N-6)
		b[pos] ^= 1 << uint(rng.Intn(8))
		v.items[j] = FItem{Kind: "badcrc", N: it.N, bytes: b, How: fmt.Sprintf("bit flipped at byte %d of the record", pos)}
	case mode == 2:
		// zeroes after the last record
		n := []int{1, 5, 6, 9, 10, 11, 512, 4096}[rng.Intn(8)]
		z := make([]byte, n)
		switch {
		case n < 6:
			v.items = append(v.items, FItem{Kind: "partial", N: n, bytes: z, How: "zeroes"})
		case n < 10:
			v.items = append(v.items, FItem{Kind: "short", N: n, Claim: 10, bytes: z, How: "zeroes"})
		default:
			v.items = append(v.items, FItem{Kind: "badcrc", N: 10, bytes: z[:10], How: "zeroes"})
			if n > 10 {
				v.items = append(v.items, FItem{Kind: "junk", N: n - 10, bytes: z[10:], How: "zeroes"})
			}
		}
	case mode == 3:
		// a few garbage bytes
		n := 1 + rng.Intn(5)
		v.items = append(v.items, FItem{Kind: "partial", N: n, bytes: garbage(n), How: "garbage"})
	case mode == 4:
		// a damaged record followed by a well-formed one
		b := EncodeRecord([]byte("zz"), garbage(1+rng.Intn(40)), rng.Intn(2) == 0)
		b[len(b)-1-rng.Intn(4)] ^= 0x10
		v.items = append(v.items, FItem{Kind: "badcrc", N: len(b), bytes: b, How: "checksum damaged"}, extraValid())
	default:
		// a header claiming more than is there (C19): all size classes
		kls := []int{0, 1, 255, 4096, 65535}
		vls := []uint32{0, 1, 511, 65536, 1 << 20, 1 << 26, 1<<31 - 1}
		kl, vl := kls[rng.Intn(len(kls))], vls[rng.Intn(len(vls))]
		if !o.Claims && vl > 1<<20 {
			vl = 1 << 20
		}
		trail := []int{0, 3, 100, 5000}[rng.Intn(4)]
		claim := 10 + kl + int(vl)
		if trail+6 >= claim {
			trail = 0
			if claim <= 6 {
				kl, claim = 255, 10+255+int(vl)
			}
		}
		b := append(header(kl, vl, rng.Intn(2) == 0), garbage(trail)...)
		v.items = append(v.items, FItem{Kind: "short", N: len(b), Claim: claim, bytes: b, How: fmt.Sprintf("header claims key %d + value %d bytes, %d bytes follow", kl, vl, trail)})
		claimMax = claim
	}
	// write the damaged file, leave a lock file behind (unclean shutdown)
	body := append([]byte(nil), v.raw[:segHeaderSize]...)
	for _, it := range v.items {
		body = append(body, it.bytes...)
	}
	for _, sg := range segs {
		for i := range sg.items {
			if sg.items[i].Rec == nil {
				sg.items[i].Rec = []string{}
			}
		}
	}
	fs.WriteFile(filepath.Join("db", v.name), body)
	fs.WriteFile(filepath.Join("db", "lock"), nil)
	present := 0
	var evsegs []Ev
	for _, sg := range segs {
		raw, _ := fs.ReadFile(filepath.Join("db", sg.name))
		present += len(raw)
		items := sg.items
		if items == nil {
			items = []FItem{}
		}
		evsegs = append(evsegs, Ev{"name": sg.name, "items": items})
	}
	rec.Emit(Ev{"e": "framing", "segs": evsegs, "present": present, "victim": v.name})
	// recover with the real code, measuring what it allocates
	var m0, m1 runtime.MemStats
	runtime.GC()
	runtime.ReadMemStats(&m0)
	t0 := time.Now()
	db2, obs2 := OpenObserved(cfg, fs, "db", s.Universe)
	dt := time.Since(t0)
	runtime.ReadMemStats(&m1)
	ev := obs2.Event("framing_result")
	var sizes []int
	for _, sg := range segs {
		raw, ok := fs.ReadFile(filepath.Join("db", sg.name))
		if !ok {
			sizes = append(sizes, -1)
			continue
		}
		sizes = append(sizes, len(raw))
	}
	// allocation of the read-back itself is not recovery work: measure Open only (second stats read is after ReadBack, so
	// subtract nothing but keep the bound generous); see DESIGN.md
	ev["sizes"], ev["alloc"], ev["ms"] = sizes, int(m1.TotalAlloc-m0.TotalAlloc), int(dt.Milliseconds())
	rec.Emit(ev)
	if db2 != nil {
		db2.Close()
	}
	_ = strings.Contains
	return claimMax
}
