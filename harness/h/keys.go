package h

import (
	"fmt"

	"github.com/akrylysov/pogreb"
)

// murmur is an independent copy of MurmurHash3_x86_32 (the documented index hash), used to
// engineer keys; it is cross-checked against the DB's own hash in selftests.
func murmur(data []byte, seed uint32) uint32 {
	const c1, c2 = 0xcc9e2d51, 0x1b873593
	h1 := seed
	n := len(data)
	i := 0
	for ; i+4 <= n; i += 4 {
		k1 := uint32(data[i]) | uint32(data[i+1])<<8 | uint32(data[i+2])<<16 | uint32(data[i+3])<<24
		k1 *= c1
		k1 = k1<<15 | k1>>17
		k1 *= c2
		h1 ^= k1
		h1 = h1<<13 | h1>>19
		h1 = h1*5 + 0xe6546b64
	}
	var k1 uint32
	switch n - i {
	case 3:
		k1 ^= uint32(data[i+2]) << 16
		fallthrough
	case 2:
		k1 ^= uint32(data[i+1]) << 8
		fallthrough
	case 1:
		k1 ^= uint32(data[i])
		k1 *= c1
		k1 = k1<<15 | k1>>17
		k1 *= c2
		h1 ^= k1
	}
	h1 ^= uint32(n)
	h1 ^= h1 >> 16
	h1 *= 0x85ebca6b
	h1 ^= h1 >> 13
	h1 *= 0xc2b2ae35
	h1 ^= h1 >> 16
	return h1
}

// KeySpace engineers keys for a pinned hash seed.
type KeySpace struct {
	Seed uint32
	next int
}

// PinSeed pins pogreb's hash seed for all databases opened afterwards.
func PinSeed(seed uint32) *KeySpace {
	s := seed
	pogreb.VerifPinnedSeed = &s
	return &KeySpace{Seed: seed}
}

// CurrentHashSeed returns the pinned hash seed (0 if none).
func CurrentHashSeed() uint32 {
	if p := pogreb.VerifPinnedSeed; p != nil {
		return *p
	}
	return 0
}

// InClass returns count fresh keys whose hash has the given low bits.
func (ks *KeySpace) InClass(bits uint, class uint32, count int) []string {
	mask := uint32(1)<<bits - 1
	var res []string
	for len(res) < count {
		k := fmt.Sprintf("k%06d", ks.next)
		ks.next++
		if murmur([]byte(k), ks.Seed)&mask == class&mask {
			res = append(res, k)
		}
	}
	return res
}

// Plain returns count fresh keys without constraint.
func (ks *KeySpace) Plain(count int) []string { return ks.InClass(0, 0, count) }

// FullCollisions returns groups of keys with identical 32-bit hashes (birthday search).
func (ks *KeySpace) FullCollisions(groups int) [][]string {
	seen := map[uint32]string{}
	var res [][]string
	for i := 0; len(res) < groups && i < 4000000; i++ {
		k := fmt.Sprintf("c%07d", i)
		hv := murmur([]byte(k), ks.Seed)
		if o, ok := seen[hv]; ok {
			res = append(res, []string{o, k})
			delete(seen, hv)
			continue
		}
		seen[hv] = k
	}
	return res
}
