package h

import (
	"encoding/binary"
	"fmt"
	"hash/crc32"
)

// Independent reader/writer of the documented format (docs/design.md): 512-byte header with the
// signature "pogreb\x0e\xfd" and format version 2; records
//   key size (2 B LE) | record type (1 bit) + value size (31 bit, LE) | key | value | CRC32-IEEE of all preceding bytes.
// Nothing here calls into pogreb.

const segHeaderSize = 512

var segSignature = []byte{'p', 'o', 'g', 'r', 'e', 'b', 0x0e, 0xfd}

// DRec is a decoded record.
type DRec struct {
	Del    bool
	Key    []byte
	Val    []byte
	Offset int
	Size   int
}

// CheckHeader validates a file header.
func CheckHeader(b []byte) error {
	if len(b) < segHeaderSize {
		return fmt.Errorf("short header: %d bytes", len(b))
	}
	for i, c := range segSignature {
		if b[i] != c {
			return fmt.Errorf("bad signature")
		}
	}
	if v := binary.LittleEndian.Uint32(b[8:12]); v != 2 {
		return fmt.Errorf("format version %d, want 2", v)
	}
	return nil
}

// DecodeSegment returns the valid record prefix of a segment file and the offset where it ends.
func DecodeSegment(b []byte) ([]DRec, int, error) {
	if err := CheckHeader(b); err != nil {
		return nil, 0, err
	}
	off := segHeaderSize
	var recs []DRec
	for {
		if len(b)-off < 6 {
			return recs, off, nil
		}
		kl := int(binary.LittleEndian.Uint16(b[off:]))
		vl32 := binary.LittleEndian.Uint32(b[off+2:])
		del := vl32&(1<<31) != 0
		vl := int(vl32 &^ (1 << 31))
		size := 6 + kl + vl + 4
		if size > len(b)-off {
			return recs, off, nil
		}
		sum := crc32.ChecksumIEEE(b[off : off+size-4])
		if sum != binary.LittleEndian.Uint32(b[off+size-4:]) {
			return recs, off, nil
		}
		recs = append(recs, DRec{Del: del, Key: b[off+6 : off+6+kl], Val: b[off+6+kl : off+6+kl+vl], Offset: off, Size: size})
		off += size
	}
}

// EncodeRecord builds a record of the documented format.
func EncodeRecord(key, val []byte, del bool) []byte {
	size := 6 + len(key) + len(val) + 4
	b := make([]byte, size)
	binary.LittleEndian.PutUint16(b, uint16(len(key)))
	vl := uint32(len(val))
	if del {
		vl |= 1 << 31
	}
	binary.LittleEndian.PutUint32(b[2:], vl)
	copy(b[6:], key)
	copy(b[6+len(key):], val)
	binary.LittleEndian.PutUint32(b[size-4:], crc32.ChecksumIEEE(b[:size-4]))
	return b
}

// ParseSegmentName splits "%05d-%d.psg" (or the legacy "%05d.psg").
func ParseSegmentName(name string) (id int, seq int, ok bool) {
	var ext string
	if n, _ := fmt.Sscanf(name, "%05d-%d.%s", &id, &seq, &ext); n == 3 && ext == "psg" {
		return id, seq, true
	}
	if n, _ := fmt.Sscanf(name, "%05d.%s", &id, &ext); n == 2 && ext == "psg" {
		return id, 0, true
	}
	return 0, 0, false
}
