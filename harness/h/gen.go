package h

import (
	"fmt"
	"math/rand"
)

// GenOpts shapes a random program.
type GenOpts struct {
	Keys         []string
	Ops          int
	BigVals      bool // values that span sectors (torn writes matter)
	Compact      bool
	Reopen       bool
	Sync         bool
	Reads        bool
	CrashAt      bool // include crashat/powerat directives (multi-epoch)
	Close        bool // end with Close
	PowerDir     string
	Inject       bool // writers at the yield points of Compact
	Backup       bool // Backup calls with injected writers, each backup opened afterwards
	Scans        bool // scans stepped call by call between writes
	MoreReopen   bool
	CompactHeavy bool     // phases of: fill segments with live + overwritten records, compact, a few writes
	Fresh        []string // pool of never-used keys (same hash classes): bursts after restarts, swap sessions
	Sessions     bool     // restart-centred patterns: compaction-only sessions, equal-count sessions, bursts after reopen
	Huge         bool     // now and then a value of a few MiB
	Tear         bool     // simulated unclean shutdowns with a torn tail
	AfterCompact bool     // C15: Sync, Put, Delete, Backup after every Compact
	Open2        bool     // competing Open calls while the database is open
	Churn        bool     // start by filling most keys, then delete / re-put (index chains with holes)
}

// GenProgram draws a random program.
func GenProgram(rng *rand.Rand, id string, cfg Cfg, g GenOpts) *Program {
	p := &Program{ID: id, Cfg: cfg}
	live := map[string]bool{}
	vn := 0
	val := func() (string, int) {
		vn++
		tag := fmt.Sprintf("v%d_", vn)
		if g.BigVals {
			switch rng.Intn(6) {
			case 0:
				return tag, 0
			case 1:
				return tag, 100 + rng.Intn(200)
			case 2:
				return tag, 400 + rng.Intn(400)
			case 3:
				return tag, 500 + rng.Intn(30)
			case 4:
				return tag, 1000 + rng.Intn(1200)
			}
		}
		if rng.Intn(12) == 0 {
			return "", 0 // an empty value
		}
		return tag, 0
	}
	pick := func() string { return g.Keys[rng.Intn(len(g.Keys))] }
	pickLive := func() string {
		if len(live) == 0 || rng.Intn(8) == 0 {
			return pick()
		}
		n := rng.Intn(len(live))
		for _, k := range g.Keys {
			if live[k] {
				if n == 0 {
					return k
				}
				n--
			}
		}
		return pick()
	}
	if g.Churn {
		for _, k := range g.Keys {
			if rng.Intn(10) < 8 {
				v, vl := val()
				p.Ops = append(p.Ops, Op{Op: "put", K: k, V: v, VL: vl})
				live[k] = true
			}
		}
	}
	nbk, nscan := 0, 0
	writeOp := func() Op {
		if rng.Intn(3) == 0 {
			k := pickLive()
			delete(live, k)
			return Op{Op: "del", K: k}
		}
		k := pick()
		v, vl := val()
		live[k] = true
		return Op{Op: "put", K: k, V: v, VL: vl}
	}
	injections := func(maxAt int) []Inject {
		var ins []Inject
		for at := 1; at <= maxAt; at++ {
			if rng.Intn(3) != 0 {
				continue
			}
			var ops []Op
			burst := 1 + rng.Intn(2)
			if rng.Intn(4) == 0 {
				burst = 4 + rng.Intn(8) // enough to roll the log over inside one gap
			}
			for n := burst; n > 0; n-- {
				switch rng.Intn(6) {
				case 0:
					ops = append(ops, Op{Op: "get", K: pickLive()})
				case 1:
					ops = append(ops, Op{Op: "readall"})
				default:
					ops = append(ops, writeOp())
				}
			}
			ins = append(ins, Inject{At: at, Ops: ops})
		}
		return ins
	}
	if (g.AfterCompact || g.Sessions || g.MoreReopen) && rng.Intn(3) == 0 {
		// an empty first session: the database is created, closed and opened again before anything is written
		// (whatever Close persists about the still empty first segment must fit what Open makes of it)
		p.Ops = append(p.Ops, Op{Op: "reopen"})
	}
	fresh := append([]string(nil), g.Fresh...)
	takeFresh := func() (string, bool) {
		if len(fresh) == 0 {
			return "", false
		}
		k := fresh[0]
		fresh = fresh[1:]
		return k, true
	}
	for len(p.Ops) < g.Ops {
		x := rng.Intn(100)
		if g.CrashAt && rng.Intn(10) == 0 && len(g.Keys) >= 6 {
			// layers: puts of some keys (old segment), their deletes plus garbage (middle segment), more puts (newest
			// segment); the process dies, the directory is recovered, compacted, and the process dies again
			// (value lengths follow the segment size, so that each layer fills about one segment whatever that size is)
			unit := int(cfg.MaxSeg) / 4
			if unit < 150 {
				unit = 150
			}
			ks := []string{g.Keys[rng.Intn(len(g.Keys))], g.Keys[rng.Intn(len(g.Keys))], g.Keys[rng.Intn(len(g.Keys))]}
			for _, k := range ks {
				p.Ops = append(p.Ops, Op{Op: "put", K: k, V: fmt.Sprintf("L%d_", len(p.Ops)), VL: unit/2 + rng.Intn(unit/2)})
				live[k] = true
			}
			others := []string{pick(), pick(), pick()}
			for _, k := range others {
				p.Ops = append(p.Ops, Op{Op: "put", K: k, V: fmt.Sprintf("L%d_", len(p.Ops)), VL: unit/2 + rng.Intn(unit)})
				live[k] = true
			}
			for _, k := range ks {
				p.Ops = append(p.Ops, Op{Op: "del", K: k})
				delete(live, k)
			}
			for _, k := range others {
				p.Ops = append(p.Ops, Op{Op: "put", K: k, V: fmt.Sprintf("L%d_", len(p.Ops)), VL: unit/2 + rng.Intn(unit)})
			}
			for n := 2 + rng.Intn(3); n > 0; n-- {
				k := pick()
				p.Ops = append(p.Ops, Op{Op: "put", K: k, V: fmt.Sprintf("L%d_", len(p.Ops)), VL: unit/3 + rng.Intn(unit)})
				live[k] = true
			}
			p.Ops = append(p.Ops, Op{Op: "crashnow"}, Op{Op: "compact"}, Op{Op: "crashnow"}, Op{Op: "readall"})
			continue
		}
		if g.CompactHeavy && rng.Intn(6) == 0 {
			// several segments' worth of records, part of them overwritten, then a compaction whose
			// promoted records overflow the current segment
			for n := 6 + rng.Intn(10); n > 0; n-- {
				k := pick()
				p.Ops = append(p.Ops, Op{Op: "put", K: k, V: fmt.Sprintf("c%d_", len(p.Ops)), VL: 100 + rng.Intn(500)})
				live[k] = true
			}
			p.Ops = append(p.Ops, Op{Op: "compact"})
			if rng.Intn(2) == 0 {
				p.Ops = append(p.Ops, Op{Op: "sync"})
			}
			continue
		}
		if g.Sessions && rng.Intn(3) == 0 {
			switch rng.Intn(4) {
			case 3:
				// a session that empties the database, then sessions that fill it again (whatever is kept
				// per database - e.g. the hash seed chosen for an empty index - must follow)
				p.Ops = append(p.Ops, Op{Op: "reopen"})
				for _, k := range g.Keys {
					if live[k] {
						p.Ops = append(p.Ops, Op{Op: "del", K: k})
						delete(live, k)
					}
				}
				p.Ops = append(p.Ops, Op{Op: "reopen"})
				for n := 5 + rng.Intn(30); n > 0; n-- {
					k := pick()
					v, vl := val()
					p.Ops = append(p.Ops, Op{Op: "put", K: k, V: v, VL: vl})
					live[k] = true
				}
				p.Ops = append(p.Ops, Op{Op: "reopen"}, Op{Op: "readall"})
			case 0:
				// a session that only compacts
				p.Ops = append(p.Ops, Op{Op: "reopen"}, Op{Op: "compact"}, Op{Op: "reopen"})
			case 1:
				// a session that ends with the key count it started with: m keys out, m new keys in
				// (the new keys share a hash class: their chain overflows, buckets come from the free list)
				m := 1 + rng.Intn(34)
				if m > len(live) {
					m = len(live)
				}
				if m > len(fresh) {
					m = len(fresh)
				}
				if m > 0 {
					p.Ops = append(p.Ops, Op{Op: "reopen"})
					for j := 0; j < m; j++ {
						old := pickLive()
						for !live[old] {
							old = pickLive()
						}
						delete(live, old)
						p.Ops = append(p.Ops, Op{Op: "del", K: old})
					}
					for j := 0; j < m; j++ {
						k, _ := takeFresh()
						p.Ops = append(p.Ops, Op{Op: "put", K: k, V: "s"})
						live[k] = true
						g.Keys = append(g.Keys, k)
					}
					p.Ops = append(p.Ops, Op{Op: "reopen"})
					if rng.Intn(2) == 0 {
						// ... and the next session allocates overflow buckets from whatever free list was reloaded
						for n := 32 + rng.Intn(40); n > 0; n-- {
							if k, ok := takeFresh(); ok {
								p.Ops = append(p.Ops, Op{Op: "put", K: k, V: "b"})
								live[k] = true
								g.Keys = append(g.Keys, k)
							}
						}
						p.Ops = append(p.Ops, Op{Op: "readall"})
					}
				}
			case 2:
				// a burst of new keys right after a restart: overflow buckets are allocated from the reloaded free list
				p.Ops = append(p.Ops, Op{Op: "reopen"})
				for n := 20 + rng.Intn(40); n > 0; n-- {
					if k, ok := takeFresh(); ok {
						p.Ops = append(p.Ops, Op{Op: "put", K: k, V: "f"})
						live[k] = true
						g.Keys = append(g.Keys, k)
					}
				}
				p.Ops = append(p.Ops, Op{Op: "readall"})
			}
			continue
		}
		if g.Huge && rng.Intn(60) == 0 {
			k := pick()
			p.Ops = append(p.Ops, Op{Op: "put", K: k, V: fmt.Sprintf("H%d_", len(p.Ops)), VL: (2 + rng.Intn(3)) << 20}, Op{Op: "get", K: k}, Op{Op: "items"})
			live[k] = true
			continue
		}
		switch {
		case x < 42:
			k := pick()
			v, vl := val()
			p.Ops = append(p.Ops, Op{Op: "put", K: k, V: v, VL: vl})
			live[k] = true
		case x < 62:
			k := pickLive()
			p.Ops = append(p.Ops, Op{Op: "del", K: k})
			delete(live, k)
		case x < 70:
			if g.Open2 && rng.Intn(2) == 0 {
				p.Ops = append(p.Ops, Op{Op: "open2"})
			} else if g.Reads {
				switch rng.Intn(5) {
				case 0:
					p.Ops = append(p.Ops, Op{Op: "get", K: pickLive()})
				case 1:
					buf := "buf:"
					if rng.Intn(2) == 0 {
						buf = "" // nil buffer
					}
					p.Ops = append(p.Ops, Op{Op: "getappend", K: pickLive(), Buf: buf})
				case 2:
					p.Ops = append(p.Ops, Op{Op: "has", K: pickLive()})
				case 3:
					p.Ops = append(p.Ops, Op{Op: "count"})
				case 4:
					p.Ops = append(p.Ops, Op{Op: "items"})
				}
			}
		case x < 78:
			if g.Compact {
				o := Op{Op: "compact"}
				if g.Inject {
					o.T = 1
					o.Inject = injections(14)
				}
				p.Ops = append(p.Ops, o)
				if g.AfterCompact {
					nbk++
					p.Ops = append(p.Ops, Op{Op: "sync"}, writeOp(), Op{Op: "del", K: pickLive()},
						Op{Op: "backup", Dir: fmt.Sprintf("bk%d-%s", nbk, id)})
					if rng.Intn(3) == 0 {
						p.Ops = append(p.Ops, Op{Op: "reopen"})
					}
				}
			}
			if g.Backup && rng.Intn(2) == 0 {
				nbk++
				dir := fmt.Sprintf("bk%d-%s", nbk, id)
				ins := injections(8)
				if rng.Intn(2) == 0 {
					// a burst right after the capture of the segment sizes: the log rolls over while Backup copies
					var ops []Op
					for n := 5 + rng.Intn(12); n > 0; n-- {
						ops = append(ops, writeOp())
					}
					ins = append([]Inject{{At: 1, Ops: ops}}, ins...)
				}
				p.Ops = append(p.Ops, Op{Op: "backup", T: 1, Dir: dir, Inject: ins}, Op{Op: "backup_open", Dir: dir})
			}
			if g.Scans && len(fresh) > 100 && rng.Intn(2) == 0 {
				// the scan is paused at a bucket boundary of a long chain (31 slots per bucket), then new keys of the
				// same hash class split that chain and reuse its freed overflow buckets, then the scan goes on
				nscan++
				p.Ops = append(p.Ops, Op{Op: "scan_start", S: nscan, T: 2})
				for n := 31 * (1 + rng.Intn(3)); n > 0; n-- {
					p.Ops = append(p.Ops, Op{Op: "next", S: nscan, T: 2})
				}
				for n := 25 + rng.Intn(70); n > 0; n-- {
					if k, ok := takeFresh(); ok {
						p.Ops = append(p.Ops, Op{Op: "put", K: k, V: "g"})
						live[k] = true
						g.Keys = append(g.Keys, k)
					}
				}
				p.Ops = append(p.Ops, Op{Op: "drain", S: nscan, T: 2}, Op{Op: "next", S: nscan, T: 2})
			} else if g.Scans && rng.Intn(2) == 0 {
				nscan++
				p.Ops = append(p.Ops, Op{Op: "scan_start", S: nscan, T: 2})
				for j := rng.Intn(12); j > 0; j-- {
					for n := 1 + rng.Intn(4); n > 0; n-- {
						p.Ops = append(p.Ops, Op{Op: "next", S: nscan, T: 2})
					}
					for n := rng.Intn(3); n > 0; n-- {
						p.Ops = append(p.Ops, writeOp())
					}
				}
				p.Ops = append(p.Ops, Op{Op: "drain", S: nscan, T: 2}, Op{Op: "next", S: nscan, T: 2})
			}
		case x < 86:
			if g.MoreReopen && rng.Intn(2) == 0 {
				p.Ops = append(p.Ops, Op{Op: "reopen"})
			} else if g.Sync {
				p.Ops = append(p.Ops, Op{Op: "sync"})
			}
		case x < 92:
			if g.Tear && rng.Intn(2) == 0 {
				t := Op{Op: "tear", V: fmt.Sprintf("\xff\xfegarbage%d", rng.Intn(100)), VL: []int{0, 3, 9, 40, 700}[rng.Intn(5)]}
				switch rng.Intn(6) {
				case 0:
					// the tail lost data: part of the last record, several records, or the whole segment body
					t.Cut = []int{1, 5, 13, 300, 2000, 1 << 20}[rng.Intn(6)]
				case 1:
					if rng.Intn(3) == 0 {
						// ... or even part of the header of the newest segment (the run ends with that Open)
						t.N = []int{7, 12, 100, 511}[rng.Intn(4)]
					}
				}
				p.Ops = append(p.Ops, t)
			} else if g.Reopen || g.MoreReopen {
				p.Ops = append(p.Ops, Op{Op: "reopen"})
			}
		case x < 97:
			if g.CrashAt {
				if rng.Intn(3) == 0 {
					// the process dies in the middle of a record that straddles a sector boundary with
					// only 1-7 bytes (a partial header) in front of the boundary
					k := pick()
					p.Ops = append(p.Ops, Op{Op: "palign", K: k, V: fmt.Sprintf("a%d_", len(p.Ops)), N: 1 + rng.Intn(7)},
						Op{Op: "crashat", N: 0, Cut: 1})
					live[k] = true
					k2 := pick()
					p.Ops = append(p.Ops, Op{Op: "put", K: k2, V: fmt.Sprintf("t%d_", len(p.Ops)), VL: 200 + rng.Intn(400)})
					live[k2] = true
				} else {
					p.Ops = append(p.Ops, Op{Op: "crashat", N: rng.Intn(5), Cut: rng.Intn(3)})
				}
			}
		default:
			// overwrite a live key right away (delete-then-reput patterns)
			k := pickLive()
			p.Ops = append(p.Ops, Op{Op: "del", K: k})
			v, vl := val()
			p.Ops = append(p.Ops, Op{Op: "put", K: k, V: v, VL: vl})
			live[k] = true
		}
	}
	if g.Close {
		p.Ops = append(p.Ops, Op{Op: "close"})
	}
	return p
}

// SmallCfg draws thresholds that spread records over many small segments.
func SmallCfg(rng *rand.Rand, syncw bool) Cfg {
	// two sizes span several 4096-byte read-buffer fills of the segment iterator (records straddle offsets 512+4096k)
	segs := []uint32{700, 1024, 1536, 2048, 4096, 9000, 13000}
	frags := []float32{0.0001, 0.05, 0.25, 0.5}
	return Cfg{FS: "crashfs", SyncW: syncw, MaxSeg: segs[rng.Intn(len(segs))], MinSeg: 1,
		MinFrag: frags[rng.Intn(len(frags))], Strict: true}
}

// EmptyingProgram deletes everything and compacts: compaction removes every segment (C15).
func EmptyingProgram(rng *rand.Rand, id string, cfg Cfg, keys []string) *Program {
	p := &Program{ID: id, Cfg: cfg}
	n := 1 + rng.Intn(len(keys))
	for i := 0; i < n; i++ {
		p.Ops = append(p.Ops, Op{Op: "put", K: keys[i], V: fmt.Sprintf("e%d_", i), VL: rng.Intn(3) * 150})
	}
	if rng.Intn(2) == 0 {
		p.Ops = append(p.Ops, Op{Op: "reopen"})
	}
	for i := 0; i < n; i++ {
		p.Ops = append(p.Ops, Op{Op: "del", K: keys[i]})
	}
	p.Ops = append(p.Ops, Op{Op: "compact"}, Op{Op: "sync"}, Op{Op: "count"})
	switch rng.Intn(4) {
	case 0:
		p.Ops = append(p.Ops, Op{Op: "put", K: keys[0], V: "again"}, Op{Op: "del", K: keys[0]})
	case 1:
		p.Ops = append(p.Ops, Op{Op: "backup", Dir: "bk-" + id}, Op{Op: "backup_open", Dir: "bk-" + id})
	case 2:
		p.Ops = append(p.Ops, Op{Op: "compact"}, Op{Op: "sync"})
	}
	if rng.Intn(2) == 0 {
		// an idle session after compaction removed every segment, then enough overwrites to fill and roll over the
		// segment that session left behind, so that a later compaction removes it
		p.Ops = append(p.Ops, Op{Op: "reopen"}, Op{Op: "reopen"})
		for i := 0; i < 3*n+6; i++ {
			p.Ops = append(p.Ops, Op{Op: "put", K: keys[i%n], V: fmt.Sprintf("r%d_", i), VL: int(cfg.MaxSeg) / 5})
		}
		p.Ops = append(p.Ops, Op{Op: "compact"}, Op{Op: "sync"})
	}
	p.Ops = append(p.Ops, Op{Op: "reopen"}, Op{Op: "put", K: keys[0], V: "fin"}, Op{Op: "compact"}, Op{Op: "close"})
	return p
}

// SizesProgram exercises the size limits and boundary lengths (C16).
func SizesProgram(rng *rand.Rand, id string, cfg Cfg, huge bool) *Program {
	p := &Program{ID: id, Cfg: cfg}
	type kd struct {
		tag string
		n   int
	}
	keys := []kd{{"", 0}, {"a", 0}, {"ab", 0}, {"k255_", 255}, {"k4096_", 4096}, {"k65535_", 65535}, {"kb", 0}}
	seg := int(cfg.MaxSeg)
	vals := []int{0, 1, 2, 100, 494, 495, 496, 505, 511, 512, 513, 1024, seg - 512 - 30, seg - 512 - 16, seg - 512, seg, seg + 1, 2*seg + 7}
	put := func(k kd, vl int, tag string) {
		if vl < 0 {
			vl = 0
		}
		o := Op{Op: "put", K: k.tag, KL: k.n, V: tag, VL: vl}
		if vl == 0 && rng.Intn(2) == 0 {
			o.V = "" // really empty value
		}
		p.Ops = append(p.Ops, o)
	}
	reads := func(k kd) {
		p.Ops = append(p.Ops, Op{Op: "get", K: k.tag, KL: k.n}, Op{Op: "has", K: k.tag, KL: k.n}, Op{Op: "getappend", K: k.tag, KL: k.n, Buf: "pfx"})
	}
	overlong := []kd{{"o65536_", 65536}, {"o65537_", 65537}, {"ab", 65536 + 2}, {"a", 65536 + 1}, {"", 65536}, {"k255_", 65536 + 255}, {"x131072_", 131072}}
	n := 0
	for round := 0; round < 3; round++ {
		for _, k := range keys {
			if rng.Intn(3) == 0 {
				continue
			}
			n++
			put(k, vals[rng.Intn(len(vals))], fmt.Sprintf("s%d_", n))
			if rng.Intn(3) == 0 {
				reads(k)
			}
		}
		// empty value is not a missing key
		p.Ops = append(p.Ops, Op{Op: "put", K: "empty", V: ""}, Op{Op: "get", K: "empty"}, Op{Op: "has", K: "empty"}, Op{Op: "get", K: "missing"}, Op{Op: "has", K: "missing"})
		// over-long keys: rejected Put, absent for Get/Has/Delete, never matching a shorter stored key
		for _, k := range overlong {
			switch rng.Intn(4) {
			case 0:
				p.Ops = append(p.Ops, Op{Op: "put", K: k.tag, KL: k.n, V: "nope"}, Op{Op: "count"})
			case 1:
				reads(k)
			case 2:
				p.Ops = append(p.Ops, Op{Op: "del", K: k.tag, KL: k.n}, Op{Op: "count"})
			}
		}
		if rng.Intn(2) == 0 {
			// the smallest admissible record - empty key, empty value: six zero bytes and a checksum - followed by another
			// record, then the process dies (fault runs) and the log is replayed, or the segment is compacted
			p.Ops = append(p.Ops, Op{Op: "put", K: "", V: ""}, Op{Op: "put", K: "a", V: fmt.Sprintf("after%d_", round), VL: rng.Intn(40)},
				Op{Op: "crashnow"}, Op{Op: "get", K: ""}, Op{Op: "has", K: ""}, Op{Op: "compact"})
		}
		p.Ops = append(p.Ops, Op{Op: "readall"})
		switch rng.Intn(4) {
		case 0:
			p.Ops = append(p.Ops, Op{Op: "reopen"})
		case 1:
			p.Ops = append(p.Ops, Op{Op: "compact"})
		case 2:
			p.Ops = append(p.Ops, Op{Op: "crashat", N: rng.Intn(4), Cut: rng.Intn(3)})
		}
		for _, k := range keys {
			if rng.Intn(4) == 0 {
				p.Ops = append(p.Ops, Op{Op: "del", K: k.tag, KL: k.n})
			}
		}
	}
	if huge {
		// the 512 MiB limit itself
		p.Ops = append(p.Ops, Op{Op: "put", K: "huge+1", V: "h_", VL: 512<<20 + 1}, Op{Op: "count"},
			Op{Op: "put", K: "huge", V: "h_", VL: 512 << 20}, Op{Op: "get", K: "huge"}, Op{Op: "reopen"}, Op{Op: "get", K: "huge"},
			// ... and the largest admissible record is also read by the segment iterator: recovery after an unclean
			// shutdown, then compaction of its segment (a later record makes the segment worth compacting)
			Op{Op: "tear", V: "", VL: 0}, Op{Op: "get", K: "huge"}, Op{Op: "put", K: "a", V: "after-huge"}, Op{Op: "put", K: "a", V: "after-huge2"},
			Op{Op: "compact"}, Op{Op: "get", K: "huge"}, Op{Op: "del", K: "huge"})
	}
	p.Ops = append(p.Ops, Op{Op: "readall"})
	return p
}
