package h

import (
	"fmt"
	"math/rand"
)

// GenOpts shapes a random program.
type GenOpts struct {
	Keys       []string
	Ops        int
	BigVals    bool // values that span sectors (torn writes matter)
	Compact    bool
	Reopen     bool
	Sync       bool
	Reads      bool
	CrashAt    bool // include crashat/powerat directives (multi-epoch)
	Close      bool // end with Close
	PowerDir   string
	Inject     bool // writers at the yield points of Compact
	Backup     bool // Backup calls with injected writers, each backup opened afterwards
	Scans      bool // scans stepped call by call between writes
	MoreReopen bool
	Open2      bool // competing Open calls while the database is open
	Churn      bool // start by filling most keys, then delete / re-put (index chains with holes)
}

// GenProgram draws a random program.
func GenProgram(rng *rand.Rand, id string, cfg Cfg, g GenOpts) *Program {
	p := &Program{ID: id, Cfg: cfg}
	live := map[string]bool{}
	vn := 0
	val := func() (string, int) {
		vn++
		tag := fmt.Sprintf("v%d_", vn)
		if g.BigVals {
			switch rng.Intn(6) {
			case 0:
				return tag, 0
			case 1:
				return tag, 100 + rng.Intn(200)
			case 2:
				return tag, 400 + rng.Intn(400)
			case 3:
				return tag, 500 + rng.Intn(30)
			case 4:
				return tag, 1000 + rng.Intn(1200)
			}
		}
		return tag, 0
	}
	pick := func() string { return g.Keys[rng.Intn(len(g.Keys))] }
	pickLive := func() string {
		if len(live) == 0 || rng.Intn(8) == 0 {
			return pick()
		}
		n := rng.Intn(len(live))
		for _, k := range g.Keys {
			if live[k] {
				if n == 0 {
					return k
				}
				n--
			}
		}
		return pick()
	}
	if g.Churn {
		for _, k := range g.Keys {
			if rng.Intn(10) < 8 {
				v, vl := val()
				p.Ops = append(p.Ops, Op{Op: "put", K: k, V: v, VL: vl})
				live[k] = true
			}
		}
	}
	nbk, nscan := 0, 0
	writeOp := func() Op {
		if rng.Intn(3) == 0 {
			k := pickLive()
			delete(live, k)
			return Op{Op: "del", K: k}
		}
		k := pick()
		v, vl := val()
		live[k] = true
		return Op{Op: "put", K: k, V: v, VL: vl}
	}
	injections := func(maxAt int) []Inject {
		var ins []Inject
		for at := 1; at <= maxAt; at++ {
			if rng.Intn(3) != 0 {
				continue
			}
			var ops []Op
			for n := 1 + rng.Intn(2); n > 0; n-- {
				switch rng.Intn(6) {
				case 0:
					ops = append(ops, Op{Op: "get", K: pickLive()})
				case 1:
					ops = append(ops, Op{Op: "readall"})
				default:
					ops = append(ops, writeOp())
				}
			}
			ins = append(ins, Inject{At: at, Ops: ops})
		}
		return ins
	}
	for len(p.Ops) < g.Ops {
		x := rng.Intn(100)
		switch {
		case x < 42:
			k := pick()
			v, vl := val()
			p.Ops = append(p.Ops, Op{Op: "put", K: k, V: v, VL: vl})
			live[k] = true
		case x < 62:
			k := pickLive()
			p.Ops = append(p.Ops, Op{Op: "del", K: k})
			delete(live, k)
		case x < 70:
			if g.Open2 && rng.Intn(2) == 0 {
				p.Ops = append(p.Ops, Op{Op: "open2"})
			} else if g.Reads {
				switch rng.Intn(5) {
				case 0:
					p.Ops = append(p.Ops, Op{Op: "get", K: pickLive()})
				case 1:
					p.Ops = append(p.Ops, Op{Op: "getappend", K: pickLive(), Buf: "buf:"})
				case 2:
					p.Ops = append(p.Ops, Op{Op: "has", K: pickLive()})
				case 3:
					p.Ops = append(p.Ops, Op{Op: "count"})
				case 4:
					p.Ops = append(p.Ops, Op{Op: "items"})
				}
			}
		case x < 78:
			if g.Compact {
				o := Op{Op: "compact"}
				if g.Inject {
					o.T = 1
					o.Inject = injections(14)
				}
				p.Ops = append(p.Ops, o)
			}
			if g.Backup && rng.Intn(2) == 0 {
				nbk++
				dir := fmt.Sprintf("bk%d-%s", nbk, id)
				p.Ops = append(p.Ops, Op{Op: "backup", T: 1, Dir: dir, Inject: injections(8)}, Op{Op: "backup_open", Dir: dir})
			}
			if g.Scans && rng.Intn(2) == 0 {
				nscan++
				p.Ops = append(p.Ops, Op{Op: "scan_start", S: nscan, T: 2})
				for j := rng.Intn(12); j > 0; j-- {
					for n := 1 + rng.Intn(4); n > 0; n-- {
						p.Ops = append(p.Ops, Op{Op: "next", S: nscan, T: 2})
					}
					for n := rng.Intn(3); n > 0; n-- {
						p.Ops = append(p.Ops, writeOp())
					}
				}
				p.Ops = append(p.Ops, Op{Op: "drain", S: nscan, T: 2}, Op{Op: "next", S: nscan, T: 2})
			}
		case x < 86:
			if g.MoreReopen && rng.Intn(2) == 0 {
				p.Ops = append(p.Ops, Op{Op: "reopen"})
			} else if g.Sync {
				p.Ops = append(p.Ops, Op{Op: "sync"})
			}
		case x < 92:
			if g.Reopen || g.MoreReopen {
				p.Ops = append(p.Ops, Op{Op: "reopen"})
			}
		case x < 97:
			if g.CrashAt {
				p.Ops = append(p.Ops, Op{Op: "crashat", N: rng.Intn(5), Cut: rng.Intn(3)})
			}
		default:
			// overwrite a live key right away (delete-then-reput patterns)
			k := pickLive()
			p.Ops = append(p.Ops, Op{Op: "del", K: k})
			v, vl := val()
			p.Ops = append(p.Ops, Op{Op: "put", K: k, V: v, VL: vl})
			live[k] = true
		}
	}
	if g.Close {
		p.Ops = append(p.Ops, Op{Op: "close"})
	}
	return p
}

// SmallCfg draws thresholds that spread records over many small segments.
func SmallCfg(rng *rand.Rand, syncw bool) Cfg {
	segs := []uint32{700, 1024, 1536, 2048, 4096}
	frags := []float32{0.0001, 0.05, 0.25, 0.5}
	return Cfg{FS: "crashfs", SyncW: syncw, MaxSeg: segs[rng.Intn(len(segs))], MinSeg: 1,
		MinFrag: frags[rng.Intn(len(frags))], Strict: true}
}
