package h

import (
	"encoding/json"
	"fmt"
	"io"
	"math/rand"
	"os"
	"path/filepath"
	"sort"

	"github.com/akrylysov/pogreb"
	pfs "github.com/akrylysov/pogreb/fs"
)

// GoldenMeta describes a golden directory written by the pinned version.
type GoldenMeta struct {
	Name     string            `json:"name"`
	Clean    bool              `json:"clean"`
	Cfg      Cfg               `json:"cfg"`
	KV       map[string]string `json:"kv"`
	Universe []string          `json:"universe"`
	What     string            `json:"what"`
	HashSeed uint32            `json:"hashseed"`
}

// GoldenGen writes the golden corpus. It is run ONCE with a harness built against the pinned
// commit (plus the verif hooks); the result is committed under /verif/golden.
func GoldenGen(base string) error {
	ks := PinSeed(0x6a09e667)
	type scen struct {
		name, what string
		cfg        Cfg
		clean      bool
		torn       int
		build      func(put func(k string, vl int), del func(k string), db func() *pogreb.DB, reopen func())
	}
	many := ks.Plain(600)
	coll := ks.InClass(3, 5, 70)
	for _, g := range ks.FullCollisions(4) {
		coll = append(coll, g...)
	}
	few := ks.Plain(30)
	scens := []scen{
		{name: "g1-small-clean", what: "20 keys, one segment", cfg: Cfg{MaxSeg: 1 << 20, MinSeg: 1 << 30, MinFrag: 0.9}, clean: true,
			build: func(put func(string, int), del func(string), db func() *pogreb.DB, reopen func()) {
				for _, k := range few[:20] {
					put(k, 10)
				}
			}},
		{name: "g2-growth-clean", what: "600 keys: index grown over several levels", cfg: Cfg{MaxSeg: 1 << 20, MinSeg: 1 << 30, MinFrag: 0.9}, clean: true,
			build: func(put func(string, int), del func(string), db func() *pogreb.DB, reopen func()) {
				for _, k := range many {
					put(k, 8)
				}
			}},
		{name: "g3-collisions-clean", what: "78 keys sharing low hash bits and full hashes: overflow chains", cfg: Cfg{MaxSeg: 1 << 20, MinSeg: 1 << 30, MinFrag: 0.9}, clean: true,
			build: func(put func(string, int), del func(string), db func() *pogreb.DB, reopen func()) {
				for _, k := range coll {
					put(k, 5)
				}
			}},
		{name: "g4-rollover-compact-clean", what: "2 KB segments, overwrites, deletes, compaction, restarts", cfg: Cfg{MaxSeg: 2048, MinSeg: 1, MinFrag: 0.2}, clean: true,
			build: func(put func(string, int), del func(string), db func() *pogreb.DB, reopen func()) {
				for i := 0; i < 150; i++ {
					put(few[i%25], 20+i%90)
				}
				for _, k := range few[:8] {
					del(k)
				}
				db().Compact()
				reopen()
				for i := 0; i < 40; i++ {
					put(few[10+i%15], 60)
				}
				db().Compact()
			}},
		{name: "g5-unclean", what: "as g4 without Close: lock file left behind", cfg: Cfg{MaxSeg: 2048, MinSeg: 1, MinFrag: 0.2}, clean: false,
			build: func(put func(string, int), del func(string), db func() *pogreb.DB, reopen func()) {
				for i := 0; i < 120; i++ {
					put(few[i%25], 20+i%90)
				}
				for _, k := range few[20:25] {
					del(k)
				}
				db().Compact()
				for i := 0; i < 30; i++ {
					put(few[i%9], 33)
				}
			}},
		{name: "g6-unclean-torn", what: "unclean shutdown with 300 garbage bytes after the last record", cfg: Cfg{MaxSeg: 4096, MinSeg: 1 << 30, MinFrag: 0.9}, clean: false, torn: 300,
			build: func(put func(string, int), del func(string), db func() *pogreb.DB, reopen func()) {
				for i := 0; i < 90; i++ {
					put(few[i%30], 15+i)
				}
				for _, k := range few[3:9] {
					del(k)
				}
			}},
		{name: "g7-empty-clean", what: "opened and closed without writes", cfg: Cfg{MaxSeg: 1 << 20, MinSeg: 1 << 30, MinFrag: 0.9}, clean: true,
			build: func(put func(string, int), del func(string), db func() *pogreb.DB, reopen func()) {}},
	}
	for _, sc := range scens {
		dir := filepath.Join(base, sc.name, "db")
		os.RemoveAll(filepath.Join(base, sc.name))
		if err := os.MkdirAll(filepath.Dir(dir), 0755); err != nil {
			return err
		}
		cfg := sc.cfg
		cfg.FS = "os"
		d, err := pogreb.Open(dir, cfg.Options(pfs.OS))
		if err != nil {
			return err
		}
		kv := map[string]string{}
		uni := map[string]bool{}
		n := 0
		put := func(k string, vl int) {
			n++
			v := Expand(fmt.Sprintf("g%d_", n), vl)
			if err := d.Put([]byte(k), v); err != nil {
				panic(err)
			}
			kv[k], uni[k] = Token(v), true
		}
		del := func(k string) {
			if err := d.Delete([]byte(k)); err != nil {
				panic(err)
			}
			delete(kv, k)
			uni[k] = true
		}
		reopen := func() {
			if err := d.Close(); err != nil {
				panic(err)
			}
			if d, err = pogreb.Open(dir, cfg.Options(pfs.OS)); err != nil {
				panic(err)
			}
		}
		sc.build(put, del, func() *pogreb.DB { return d }, reopen)
		// what the pinned version itself reads back is the reference
		for k := range uni {
			v, err := d.Get([]byte(k))
			if err != nil {
				return err
			}
			want, ok := kv[k]
			if (v == nil) == ok || (ok && Token(v) != want) {
				return fmt.Errorf("%s: the pinned version disagrees with the model on %q", sc.name, k)
			}
		}
		if sc.clean {
			if err := d.Close(); err != nil {
				return err
			}
		} else {
			d.Sync()
			if sc.torn > 0 {
				names, _ := filepath.Glob(filepath.Join(dir, "*.psg"))
				sort.Strings(names)
				best, bestSeq := "", -1
				for _, nm := range names {
					if _, sq, ok := ParseSegmentName(filepath.Base(nm)); ok && sq > bestSeq {
						best, bestSeq = nm, sq
					}
				}
				f, err := os.OpenFile(best, os.O_RDWR, 0640)
				if err != nil {
					return err
				}
				st, _ := f.Stat()
				g := make([]byte, sc.torn)
				rand.New(rand.NewSource(7)).Read(g)
				f.WriteAt(g, st.Size())
				f.Close()
			}
			// the process "dies": descriptors are released when this process exits
		}
		var us []string
		for k := range uni {
			us = append(us, k)
		}
		sort.Strings(us)
		meta := GoldenMeta{Name: sc.name, Clean: sc.clean, Cfg: cfg, KV: kv, Universe: us, What: sc.what, HashSeed: ks.Seed}
		b, _ := json.MarshalIndent(meta, "", " ")
		if err := os.WriteFile(filepath.Join(base, sc.name, "expect.json"), b, 0644); err != nil {
			return err
		}
	}
	return nil
}

func copyDir(src, dst string) error {
	if err := os.MkdirAll(dst, 0755); err != nil {
		return err
	}
	ents, err := os.ReadDir(src)
	if err != nil {
		return err
	}
	for _, e := range ents {
		in, err := os.Open(filepath.Join(src, e.Name()))
		if err != nil {
			return err
		}
		out, err := os.Create(filepath.Join(dst, e.Name()))
		if err != nil {
			return err
		}
		io.Copy(out, in)
		in.Close()
		out.Close()
	}
	return nil
}

// GoldenCheck opens scratch copies of the golden directories with the current code (on fs.OS and
// fs.OSMMap), records what it finds, then keeps using the database (writes, compaction, restart).
func GoldenCheck(rec *Rec, golden, scratch string, seed int64) (int, error) {
	ents, err := os.ReadDir(golden)
	if err != nil {
		return 0, err
	}
	n := 0
	for _, e := range ents {
		b, err := os.ReadFile(filepath.Join(golden, e.Name(), "expect.json"))
		if err != nil {
			continue
		}
		var meta GoldenMeta
		if err := json.Unmarshal(b, &meta); err != nil {
			return n, err
		}
		for _, fsname := range []string{"os", "osmmap"} {
			n++
			dir := filepath.Join(scratch, fmt.Sprintf("golden-%d-%s-%s", os.Getpid(), meta.Name, fsname))
			if err := copyDir(filepath.Join(golden, e.Name(), "db"), dir); err != nil {
				return n, err
			}
			PinSeed(meta.HashSeed)
			cfg := meta.Cfg
			cfg.FS = fsname
			cfg.Strict = true
			p := &Program{ID: "golden-" + meta.Name + "-" + fsname, Cfg: cfg, Ops: []Op{}}
			r := NewRunnerOn(rec, p, dir, RunParams{Mode: "seq", Seed: seed, Probe: true, FullEvery: 20})
			r.S.NoListing = true
			for _, k := range meta.Universe {
				r.S.use([]byte(k))
			}
			db, obs := OpenObserved(cfg, r.S.Root, dir, r.S.Universe)
			ev := obs.Event("golden_opened")
			expect := meta.KV
			if expect == nil {
				expect = map[string]string{}
			}
			ev["expect"], ev["clean"], ev["name"] = expect, meta.Clean, meta.Name
			rec.Emit(ev)
			if db != nil {
				r.S.DB = db
				// the database written by the pinned version stays fully usable
				rng := rand.New(rand.NewSource(seed))
				g := GenOpts{Keys: meta.Universe, Ops: 40, Compact: true, Reopen: true, Sync: true, Reads: true}
				if len(g.Keys) == 0 {
					g.Keys = []string{"n1", "n2", "n3"}
				}
				q := GenProgram(rng, p.ID, cfg, g)
				for _, o := range q.Ops {
					if _, err := r.step(o); err != nil {
						break
					}
				}
				r.S.ReadAll()
				r.CloseAndDecode()
				r.Finish()
			}
			os.RemoveAll(dir)
		}
	}
	return n, nil
}
