package h

import (
	"encoding/json"
	"fmt"
	"os"
	"path/filepath"
	"sort"

	pfs "github.com/akrylysov/pogreb/fs"
	"verif/harness/crashfs"
)

// segDigest hashes the names and bytes of all segment files of a directory.
func segDigest(root pfs.FileSystem, dir string) string {
	h := uint64(14695981039346656037)
	mix := func(b []byte) {
		for _, c := range b {
			h ^= uint64(c)
			h *= 1099511628211
		}
	}
	names := segNames(ListDir(root, dir))
	sort.Strings(names)
	total := 0
	for _, n := range names {
		raw, err := ReadWhole(root, filepath.Join(dir, n))
		if err != nil {
			mix([]byte("ERR" + err.Error()))
			continue
		}
		mix([]byte(n))
		mix(raw)
		total += len(raw)
	}
	return fmt.Sprintf("%d files %d bytes %016x", len(names), total, h)
}

// Tear simulates an unclean shutdown after a Close: the lock file is recreated and garbage is
// appended to the newest segment; then the directory is recovered (C17, C18).
// cut > 0 first removes that many bytes from the end of the newest segment (a torn tail that lost
// data): what the recovering Open must then find is what the independent decoder replays from the
// files.  keep > 0 truncates the newest segment to keep bytes instead, i.e. inside its 512-byte header:
// no property says what Open does with that, the outcome only has to be the same on every FileSystem,
// and the recording ends there.
func (r *Runner) Tear(garbage []byte, cut, keep int) error {
	s := r.S
	if err := s.Do(Op{Op: "close"}); err != nil {
		return err
	}
	root, dir := s.Root, s.Dir
	f, err := root.OpenFile(filepath.Join(dir, "lock"), os.O_CREATE|os.O_RDWR, 0644)
	if err != nil {
		return err
	}
	f.Close()
	names := segNames(ListDir(root, dir))
	best, bestSeq := "", -1
	for _, n := range names {
		if _, sq, ok := ParseSegmentName(n); ok && sq > bestSeq {
			best, bestSeq = n, sq
		}
	}
	damaged, headerCut := false, false
	if best != "" && (cut > 0 || keep > 0) {
		sf, err := root.OpenFile(filepath.Join(dir, best), os.O_RDWR, 0640)
		if err != nil {
			return err
		}
		st, _ := sf.Stat()
		size := st.Size() - int64(cut)
		if size < 512 {
			size = 512
		}
		if keep > 0 && keep < 512 {
			size, headerCut = int64(keep), true
		}
		if size < st.Size() {
			if err := sf.Truncate(size); err != nil {
				return err
			}
			damaged = true
		}
		sf.Close()
	}
	if headerCut && damaged {
		s.R.Emit(Ev{"e": "note", "what": fmt.Sprintf("newest segment truncated to %d bytes (inside its header); outcome compared across file systems only", keep)})
		db, obs := OpenObserved(s.Cfg, root, dir, s.Universe)
		out, _ := json.Marshal(obs.Event("damaged_header_opened"))
		if obs.Err != "" {
			out = []byte("ERR " + obs.Err)
			if s.Digest {
				out = []byte("ERR " + ErrKind(fmt.Errorf("%s", obs.Err)))
			}
		}
		s.mu.Lock()
		s.nres++
		s.resHash = s.resHash*1099511628211 ^ fnv64(out)
		s.mu.Unlock()
		shown := out
		if len(shown) > 300 {
			shown = shown[:300]
		}
		s.R.Emit(Ev{"e": "note", "what": "outcome: " + string(shown)})
		if db != nil {
			db.Close()
		}
		s.DB = nil
		return fmt.Errorf("tear: header cut, the run ends here")
	}
	var expect map[string]string
	if damaged {
		expect = DecodeDir(root, dir)
	}
	if best != "" && len(garbage) > 0 {
		sf, err := root.OpenFile(filepath.Join(dir, best), os.O_RDWR, 0640)
		if err != nil {
			return err
		}
		st, _ := sf.Stat()
		if _, err := sf.WriteAt(garbage, st.Size()); err != nil {
			return err
		}
		sf.Close()
	}
	db, obs := OpenObserved(s.Cfg, root, dir, s.Universe)
	if damaged {
		// the tail lost data: the truth is what a validating reader of the documented format replays (C08)
		ev := obs.Event("damaged_opened")
		ev["expect"] = expect
		s.R.Emit(ev)
		if obs.Err != "" {
			return fmt.Errorf("tear: %s", obs.Err)
		}
	} else {
		s.R.Emit(Ev{"e": "image", "lossy": false, "lock": true, "failed": false})
		s.R.Emit(obs.Event("reopened"))
		if obs.Err != "" {
			return fmt.Errorf("tear: %s", obs.Err)
		}
		s.R.Emit(Ev{"e": "continue"})
	}
	s.DB = db
	if s.WalStates {
		s.R.Emit(s.WalState("tear", nil))
		if CurrentHashSeed() != 0 {
			s.R.Emit(s.IdxState("tear", "", nil))
		}
	}
	return nil
}

// DiffRun executes one program on one file system and returns the digests to compare.
func DiffRun(rec *Rec, p *Program, fsname, base string, seed int64) (results string, segs string, err error) {
	q := *p
	q.Cfg.FS = fsname
	q.ID = p.ID + "-" + fsname
	var r *Runner
	rp := RunParams{Mode: "seq", Seed: seed, Probe: true, FullEvery: 20}
	if fsname == "crashfs" {
		r = NewRunner(rec, &q, rp)
	} else {
		r = NewRunnerOn(rec, &q, filepath.Join(base, q.ID), rp)
		defer os.RemoveAll(filepath.Join(base, q.ID))
	}
	r.S.Digest = true
	err = r.Run(&q)
	if err == nil {
		r.CloseAndDecode()
	}
	segs = segDigest(r.S.Root, r.S.Dir)
	r.Finish()
	return fmt.Sprintf("%d results %016x", r.S.nres, r.S.resHash), segs, err
}

// Diff runs the program on all file systems and records the comparison (C17).
func Diff(rec *Rec, p *Program, base string, seed int64) {
	fss := []string{"mem", "os", "osmmap", "crashfs"}
	var res, segs []string
	for _, f := range fss {
		r, s, err := DiffRun(rec, p, f, base, seed)
		if err != nil {
			r += " ERR " + ErrKind(err)
		}
		res = append(res, r)
		segs = append(segs, s)
	}
	rec.Emit(Ev{"e": "reset", "syncw": false, "strict": false, "bg": false, "dur": false, "id": p.ID + "-cmp", "fs": "all", "prog": p})
	rec.Emit(Ev{"e": "fscmp", "fs": fss, "results": res, "segbytes": segs})
}

var _ = json.Marshal
var _ = crashfs.New

// DecodeDir replays every segment file of a directory, oldest first, with the independent decoder.
func DecodeDir(root pfs.FileSystem, dir string) map[string]string {
	type sf struct {
		name string
		seq  int
	}
	var segs []sf
	for _, n := range segNames(ListDir(root, dir)) {
		if _, sq, ok := ParseSegmentName(n); ok {
			segs = append(segs, sf{n, sq})
		}
	}
	sort.Slice(segs, func(i, j int) bool { return segs[i].seq < segs[j].seq })
	kv := map[string]string{}
	for _, sg := range segs {
		raw, err := ReadWhole(root, filepath.Join(dir, sg.name))
		if err != nil {
			continue
		}
		recs, _, err := DecodeSegment(raw)
		if err != nil {
			continue
		}
		for _, r := range recs {
			if r.Del {
				delete(kv, Token(r.Key))
			} else {
				kv[Token(r.Key)] = Token(r.Val)
			}
		}
	}
	return kv
}
