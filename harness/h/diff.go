package h

import (
	"encoding/json"
	"fmt"
	"os"
	"path/filepath"
	"sort"

	pfs "github.com/akrylysov/pogreb/fs"
	"verif/harness/crashfs"
)

// segDigest hashes the names and bytes of all segment files of a directory.
func segDigest(root pfs.FileSystem, dir string) string {
	h := uint64(14695981039346656037)
	mix := func(b []byte) {
		for _, c := range b {
			h ^= uint64(c)
			h *= 1099511628211
		}
	}
	names := segNames(ListDir(root, dir))
	sort.Strings(names)
	total := 0
	for _, n := range names {
		raw, err := ReadWhole(root, filepath.Join(dir, n))
		if err != nil {
			mix([]byte("ERR" + err.Error()))
			continue
		}
		mix([]byte(n))
		mix(raw)
		total += len(raw)
	}
	return fmt.Sprintf("%d files %d bytes %016x", len(names), total, h)
}

// Tear simulates an unclean shutdown after a Close: the lock file is recreated and garbage is
// appended to the newest segment; then the directory is recovered (C17, C18).
func (r *Runner) Tear(garbage []byte) error {
	s := r.S
	if err := s.Do(Op{Op: "close"}); err != nil {
		return err
	}
	root, dir := s.Root, s.Dir
	f, err := root.OpenFile(filepath.Join(dir, "lock"), os.O_CREATE|os.O_RDWR, 0644)
	if err != nil {
		return err
	}
	f.Close()
	names := segNames(ListDir(root, dir))
	best, bestSeq := "", -1
	for _, n := range names {
		if _, sq, ok := ParseSegmentName(n); ok && sq > bestSeq {
			best, bestSeq = n, sq
		}
	}
	if best != "" && len(garbage) > 0 {
		sf, err := root.OpenFile(filepath.Join(dir, best), os.O_RDWR, 0640)
		if err != nil {
			return err
		}
		st, _ := sf.Stat()
		if _, err := sf.WriteAt(garbage, st.Size()); err != nil {
			return err
		}
		sf.Close()
	}
	db, obs := OpenObserved(s.Cfg, root, dir, s.Universe)
	s.R.Emit(Ev{"e": "image", "lossy": false, "lock": true, "failed": false})
	s.R.Emit(obs.Event("reopened"))
	if obs.Err != "" {
		return fmt.Errorf("tear: %s", obs.Err)
	}
	s.R.Emit(Ev{"e": "continue"})
	s.DB = db
	return nil
}

// DiffRun executes one program on one file system and returns the digests to compare.
func DiffRun(rec *Rec, p *Program, fsname, base string, seed int64) (results string, segs string, err error) {
	q := *p
	q.Cfg.FS = fsname
	q.ID = p.ID + "-" + fsname
	var r *Runner
	rp := RunParams{Mode: "seq", Seed: seed, Probe: true, FullEvery: 20}
	if fsname == "crashfs" {
		r = NewRunner(rec, &q, rp)
	} else {
		r = NewRunnerOn(rec, &q, filepath.Join(base, q.ID), rp)
		defer os.RemoveAll(filepath.Join(base, q.ID))
	}
	r.S.Digest = true
	err = r.Run(&q)
	if err == nil {
		r.CloseAndDecode()
	}
	segs = segDigest(r.S.Root, r.S.Dir)
	r.Finish()
	return fmt.Sprintf("%d results %016x", r.S.nres, r.S.resHash), segs, err
}

// Diff runs the program on all file systems and records the comparison (C17).
func Diff(rec *Rec, p *Program, base string, seed int64) {
	fss := []string{"mem", "os", "osmmap", "crashfs"}
	var res, segs []string
	for _, f := range fss {
		r, s, err := DiffRun(rec, p, f, base, seed)
		if err != nil {
			r += " ERR " + ErrKind(err)
		}
		res = append(res, r)
		segs = append(segs, s)
	}
	rec.Emit(Ev{"e": "reset", "syncw": false, "strict": false, "bg": false, "dur": false, "id": p.ID + "-cmp", "fs": "all", "prog": p})
	rec.Emit(Ev{"e": "fscmp", "fs": fss, "results": res, "segbytes": segs})
}

var _ = json.Marshal
var _ = crashfs.New
