package h

import (
	"fmt"
	"math/rand"
	"runtime"
	"runtime/debug"
	"strings"
	"sync"
	"sync/atomic"
	"time"

	"github.com/akrylysov/pogreb"
	pfs "github.com/akrylysov/pogreb/fs"
)

// StressOpts shapes one free-running concurrent history.
type StressOpts struct {
	ID       string
	FS       string
	Dir      string
	Root     pfs.FileSystem
	Workers  int
	OpsEach  int
	Keys     []string
	Maint    bool // a goroutine running Compact / Sync / Backup / scans / FileSize / Metrics
	CloseMid bool // Close races with everything (C10)
	BG       bool // background sync + compaction workers
	Prefill  int
	SyncW    bool // sync after every write (BackgroundSyncInterval = -1)
	HoldBG   bool // park the background compaction at its first yield point and call Close meanwhile (C10: Close waits for it)
	Grow     bool // workers mostly insert NEW keys: the index splits while compaction and scans run
	Big      bool // values of 1-4 MiB: copying one out takes about a millisecond, every put gets its own segment
	Seed     int64
	MaxSeg   uint32
}

// StressResult summarises one history.
type StressResult struct {
	Events int
	Ops    int
	Stuck  bool
	Leak   bool
	Faults int
}

// Stress runs one concurrent history on a fresh database and records it. Events are written under
// one mutex: an invocation is logged before the call starts and a response after it returned, so the
// order of the lines is consistent with real time.
func Stress(rec *Rec, o StressOpts) StressResult {
	res := StressResult{}
	cfg := Cfg{FS: o.FS, MaxSeg: o.MaxSeg, MinSeg: 1, MinFrag: 0.0001, Strict: false, SyncW: o.SyncW}
	s := &Sess{R: rec, Cfg: cfg, Root: o.Root, Dir: o.Dir, Universe: map[string][]byte{}}
	rec.Emit(Ev{"e": "reset", "syncw": o.SyncW, "strict": false, "bg": o.BG, "dur": false, "id": o.ID, "fs": o.FS,
		"run": Ev{"cmd": "stress", "workers": o.Workers, "ops": o.OpsEach, "keys": len(o.Keys), "maint": o.Maint, "closemid": o.CloseMid, "seed": o.Seed}})
	for _, k := range o.Keys {
		s.use([]byte(k))
	}
	opts := cfg.Options(o.Root)
	if o.BG {
		if !o.SyncW {
			opts.BackgroundSyncInterval = 2 * time.Millisecond
		}
		opts.BackgroundCompactionInterval = 3 * time.Millisecond
	}
	// C10: a background compaction parked at its first yield point while Close is called
	var hold *bgHold
	if o.HoldBG && o.BG {
		hold = newBGHold()
		pogreb.VerifYield = hold.yield
		defer func() { pogreb.VerifYield = nil }()
	}
	Logs.push()
	db, err := pogreb.Open(o.Dir, opts)
	Logs.pop()
	if err != nil {
		rec.Emit(Ev{"e": "reopened", "err": "open: " + err.Error(), "recovered": false, "kv": Ev{}, "count": 0, "has": []string{}, "items": [][2]string{}})
		return res
	}
	s.DB = db
	obs := ReadBack(db, s.Universe)
	rec.Emit(obs.Event("reopened"))
	rng := rand.New(rand.NewSource(o.Seed))
	for i := 0; i < o.Prefill; i++ {
		s.Do(Op{Op: "put", K: o.Keys[rng.Intn(len(o.Keys))], V: fmt.Sprintf("p%d", i), T: 0})
	}

	var progress int64
	var wg sync.WaitGroup
	var closedFlag int32
	// Every Barrier operations the workers meet and the database is read back while nobody writes:
	// this collapses the set of linearizations TLC has to carry along (bounded search).
	bar := newBarrier(o.Workers, func() {
		if atomic.LoadInt32(&closedFlag) == 0 && !o.CloseMid {
			s.ReadAll()
		}
	})
	stop := make(chan struct{})
	nthreads := o.Workers
	worker := func(t int, seed int64) {
		defer wg.Done()
		debug.SetPanicOnFault(true)
		if hold != nil {
			hold.register()
		}
		r := rand.New(rand.NewSource(seed))
		for i := 0; i < o.OpsEach; i++ {
			select {
			case <-stop:
				bar.leave()
				return
			default:
			}
			k := o.Keys[r.Intn(len(o.Keys))]
			var op Op
			x := r.Intn(100)
			if o.Grow {
				// a key of this worker's own range, mostly never used before; overwrites make garbage for compaction
				k = o.Keys[(t*o.OpsEach*2+i*2+r.Intn(2))%len(o.Keys)]
				if x >= 50 && i > 0 {
					k = o.Keys[(t*o.OpsEach*2+r.Intn(2*i))%len(o.Keys)]
				}
				if x < 70 {
					x = 0
				}
			}
			switch {
			case x < 35:
				vl := 0
				if r.Intn(6) == 0 {
					vl = 300 + r.Intn(900)
				}
				if o.Big && r.Intn(4) != 0 {
					vl = (1 + r.Intn(4)) << 20
				}
				op = Op{Op: "put", K: k, V: fmt.Sprintf("w%d_%d_", t, i), VL: vl}
			case x < 50 && !(o.Big && x >= 40):
				op = Op{Op: "del", K: k}
			case x < 75:
				op = Op{Op: "get", K: k}
			case x < 82:
				op = Op{Op: "getappend", K: k, Buf: "b:"}
			case x < 92:
				op = Op{Op: "has", K: k}
			default:
				op = Op{Op: "count"}
			}
			op.T = t
			s.Do(op)
			if (op.Op == "put" || op.Op == "del") && r.Intn(2) == 0 {
				s.Do(Op{Op: "get", K: k, T: t})
			}
			atomic.AddInt64(&progress, 1)
			every := 5
			if o.Grow {
				every = 20 // workers use disjoint key ranges: few candidate linearizations even without frequent barriers
			}
			if (i+1)%every == 0 {
				bar.wait()
			}
		}
		bar.leave()
	}
	for t := 0; t < o.Workers; t++ {
		wg.Add(1)
		go worker(t, o.Seed*131+int64(t))
	}
	if o.Maint {
		mt := nthreads
		nthreads++
		wg.Add(1)
		go func() {
			defer wg.Done()
			debug.SetPanicOnFault(true)
			if hold != nil {
				hold.register()
			}
			r := rand.New(rand.NewSource(o.Seed * 977))
			nb := 0
			for i := 0; i < o.OpsEach; i++ {
				select {
				case <-stop:
					return
				default:
				}
				choice := r.Intn(7)
				if o.Grow && r.Intn(10) < 7 {
					choice = 0 // growth mode: compaction runs most of the time while the index splits
				}
				switch choice {
				case 0, 1:
					s.Do(Op{Op: "compact", T: mt})
				case 2:
					s.Do(Op{Op: "sync", T: mt})
				case 3:
					// a backup taken while the writers keep running, opened right away (C12)
					nb++
					bdir := fmt.Sprintf("%s-bk%d", o.Dir, nb)
					// (a Backup that overlaps or follows Close is not constrained by C12: only opened in histories without Close races)
					if s.Do(Op{Op: "backup", T: mt, Dir: bdir}) == nil && !o.CloseMid {
						s.mu.Lock()
						uni := make(map[string][]byte, len(s.Universe))
						for k, v := range s.Universe {
							uni[k] = v
						}
						s.mu.Unlock()
						db2, obs := OpenObserved(cfg, o.Root, bdir, uni)
						ev := obs.Event("backup_opened")
						ev["dir"] = bdir
						rec.Emit(ev)
						if db2 != nil {
							db2.Close()
						}
					}
				case 4:
					// a whole scan, stepped
					sid := i + 1
					s.Do(Op{Op: "scan_start", S: sid, T: mt})
					s.Do(Op{Op: "drain", S: sid, T: mt})
				case 5:
					func() {
						defer func() { recover() }()
						db.FileSize()
						_ = db.Metrics().Puts.Value()
					}()
				case 6:
					s.Do(Op{Op: "count", T: mt})
				}
				atomic.AddInt64(&progress, 1)
			}
		}()
	}
	if o.Maint && !o.HoldBG {
		ct2 := nthreads
		nthreads++
		wg.Add(1)
		go func() {
			// compaction keeps running next to Backup and the scans of the other maintenance goroutine
			defer wg.Done()
			if hold != nil {
				hold.register()
			}
			for i := 0; i < o.OpsEach; i++ {
				select {
				case <-stop:
					return
				default:
				}
				s.Do(Op{Op: "compact", T: ct2})
				atomic.AddInt64(&progress, 1)
				runtime.Gosched()
			}
		}()
	}
	closed := false
	if o.CloseMid {
		ct := nthreads
		nthreads++
		wg.Add(1)
		go func() {
			defer wg.Done()
			target := int64(rng.Intn(o.Workers*o.OpsEach/2 + 1))
			for atomic.LoadInt64(&progress) < target {
				runtime.Gosched()
			}
			if hold != nil {
				hold.register()
				// wait (briefly) until the background worker sits in a compaction, then close
				if g := hold.waitParked(300 * time.Millisecond); g != "" {
					done := make(chan error, 1)
					go func() { hold.register(); done <- s.Do(Op{Op: "close", T: ct}) }()
					select {
					case err := <-done:
						// Close returned although a goroutine started by the database is still inside Compact
						rec.Emit(Ev{"e": "leak", "what": "Close returned while the background compaction was still running:\n" + g})
						res.Leak = true
						hold.release()
						if err == nil {
							closed = true
						}
					case <-time.After(150 * time.Millisecond):
						hold.release() // Close is waiting for the worker, as it should
						if err := <-done; err == nil {
							closed = true
						}
					}
					atomic.StoreInt32(&closedFlag, 1)
					return
				}
				hold.release()
			}
			if err := s.Do(Op{Op: "close", T: ct}); err == nil {
				closed = true
			}
			atomic.StoreInt32(&closedFlag, 1)
		}()
	}
	// watchdog
	done := make(chan struct{})
	go func() { wg.Wait(); close(done) }()
	last, lastT := int64(-1), time.Now()
wait:
	for {
		select {
		case <-done:
			break wait
		case <-time.After(200 * time.Millisecond):
			p := atomic.LoadInt64(&progress)
			if p != last {
				last, lastT = p, time.Now()
			} else if time.Since(lastT) > 60*time.Second {
				buf := make([]byte, 1<<16)
				n := runtime.Stack(buf, true)
				rec.Emit(Ev{"e": "stuck", "what": string(buf[:n])})
				res.Stuck = true
				close(stop)
				return res
			}
		}
	}
	if !o.CloseMid {
		// quiescent final comparison, then a clean close
		s.ReadAll()
		if err := s.Do(Op{Op: "close", T: 0}); err == nil {
			closed = true
		}
	}
	if closed {
		// no goroutine started by the database may be left
		leak := ""
		for i := 0; i < 50; i++ {
			leak = pogrebGoroutines()
			if leak == "" {
				break
			}
			time.Sleep(10 * time.Millisecond)
		}
		if leak != "" {
			rec.Emit(Ev{"e": "leak", "what": leak})
			res.Leak = true
		}
		// and the directory reopens with exactly the linearized contents
		cfg2 := cfg
		db2, obs2 := OpenObserved(cfg2, o.Root, o.Dir, s.Universe)
		rec.Emit(obs2.Event("reopened"))
		if db2 != nil {
			db2.Close()
		}
	}
	res.Events = rec.Events
	return res
}

// pogrebGoroutines returns the stacks of goroutines that are inside pogreb code.
func pogrebGoroutines() string {
	buf := make([]byte, 1<<18)
	n := runtime.Stack(buf, true)
	var bad []string
	for _, g := range strings.Split(string(buf[:n]), "\n\n") {
		if strings.Contains(g, "akrylysov/pogreb.") && !strings.Contains(g, "verif/harness/h.pogrebGoroutines") {
			bad = append(bad, g)
		}
	}
	return strings.Join(bad, "\n\n")
}

// barrier is a reusable rendezvous of n parties; the last one to arrive runs fn.
type barrier struct {
	mu    sync.Mutex
	cond  *sync.Cond
	n     int
	count int
	gen   int
	fn    func()
}

func newBarrier(n int, fn func()) *barrier {
	b := &barrier{n: n, fn: fn}
	b.cond = sync.NewCond(&b.mu)
	return b
}

func (b *barrier) wait() {
	b.mu.Lock()
	defer b.mu.Unlock()
	b.count++
	if b.count >= b.n {
		b.fn()
		b.count = 0
		b.gen++
		b.cond.Broadcast()
		return
	}
	g := b.gen
	for g == b.gen {
		b.cond.Wait()
	}
}

// leave removes a party (it has finished).
func (b *barrier) leave() {
	b.mu.Lock()
	defer b.mu.Unlock()
	b.n--
	if b.n > 0 && b.count >= b.n {
		b.fn()
		b.count = 0
		b.gen++
		b.cond.Broadcast()
	}
}

// bgHold parks goroutines that are NOT the harness's own (i.e. the database's background worker) at the
// "compact.picked" yield point until released.
type bgHold struct {
	mu       sync.Mutex
	own      map[int64]bool
	parked   string
	released bool
	gate     chan struct{}
}

func newBGHold() *bgHold {
	h := &bgHold{own: map[int64]bool{}, gate: make(chan struct{})}
	h.own[goid()] = true
	return h
}

func (h *bgHold) register() {
	h.mu.Lock()
	h.own[goid()] = true
	h.mu.Unlock()
}

func (h *bgHold) yield(point string) {
	if point != "compact.picked" {
		return
	}
	h.mu.Lock()
	if h.own[goid()] || h.released || h.parked != "" {
		h.mu.Unlock()
		return
	}
	buf := make([]byte, 4096)
	h.parked = string(buf[:runtime.Stack(buf, false)])
	h.mu.Unlock()
	<-h.gate
}

func (h *bgHold) waitParked(d time.Duration) string {
	deadline := time.Now().Add(d)
	for time.Now().Before(deadline) {
		h.mu.Lock()
		p := h.parked
		h.mu.Unlock()
		if p != "" {
			return p
		}
		time.Sleep(time.Millisecond)
	}
	return ""
}

func (h *bgHold) release() {
	h.mu.Lock()
	if !h.released {
		h.released = true
		close(h.gate)
	}
	h.mu.Unlock()
}
