package h

import (
	"fmt"
	"math/rand"
	"os"
	"path/filepath"
	"strings"

	"github.com/akrylysov/pogreb"
)

func countFDs() int {
	ents, err := os.ReadDir("/proc/self/fd")
	if err != nil {
		return -1
	}
	return len(ents)
}

// countMaps counts the memory mappings of files under dir (the Go runtime's own mappings vary).
func countMaps(dir string) int {
	b, err := os.ReadFile("/proc/self/maps")
	if err != nil {
		return -1
	}
	n := 0
	for _, l := range strings.Split(string(b), "\n") {
		if strings.Contains(l, dir) {
			n++
		}
	}
	return n
}

// openUnder counts the descriptors of this process that refer to files under dir (also unlinked ones).
func openUnder(dir string) int {
	abs, err := filepath.Abs(dir)
	if err != nil {
		return -1
	}
	ents, err := os.ReadDir("/proc/self/fd")
	if err != nil {
		return -1
	}
	n := 0
	for _, e := range ents {
		if t, err := os.Readlink("/proc/self/fd/" + e.Name()); err == nil && strings.HasPrefix(t, abs+"/") {
			n++
		}
	}
	return n
}

// Steady runs a steady overwrite/delete workload with periodic compaction and restarts on a real
// file system and records the resources the database holds after every round (C15).
func Steady(rec *Rec, id, fsname, dir string, rounds, nkeys int, seed int64) int {
	rng := rand.New(rand.NewSource(seed))
	// every 4th run: keys that share their low hash bits (bucket chains with overflow buckets) and a
	// rotating key set (a deleted key is replaced by a NEW one): the index must not grow with history either
	var pool []string
	collide := (seed/6)%2 == 1
	if collide {
		ks := PinSeed(uint32(0x3c6ef372 + seed))
		pool = ks.InClass(3, uint32(seed), 3*nkeys+60)
	}
	cfg := Cfg{FS: fsname, MaxSeg: 4096, MinSeg: 1, MinFrag: 0.3, Strict: true}
	root := RootFS(fsname)
	s := NewSess(rec, cfg, root, dir, id, Ev{"dur": false, "ep": false, "run": Ev{"cmd": "steady", "rounds": rounds, "keys": nkeys, "seed": seed}}) // no fault images, stepped scans or damaged tails here: no durability bookkeeping, no set of all pairs ever put
	fds0, maps0 := countFDs(), countMaps(dir)
	if err := s.Open(); err != nil {
		return 0
	}
	live := map[string]int{}
	n := 0
	for r := 1; r <= rounds; r++ {
		for i := 0; i < 2*nkeys; i++ {
			k := fmt.Sprintf("s%03d", rng.Intn(nkeys))
			if collide {
				// one key out, a new one in
				if len(live) >= nkeys {
					var old string
					n := rng.Intn(len(live))
					for x := range live {
						if n == 0 {
							old = x
							break
						}
						n--
					}
					if s.Do(Op{Op: "del", K: old}) != nil {
						return n
					}
					delete(live, old)
				}
				k = pool[rng.Intn(len(pool))]
				for live[k] != 0 {
					k = pool[rng.Intn(len(pool))]
				}
				vl := 50 + rng.Intn(100)
				if s.Do(Op{Op: "put", K: k, V: fmt.Sprintf("r%d_%d_", r, i), VL: vl}) != nil {
					return n
				}
				live[k] = 10 + len(k) + vl
				n++
				continue
			}
			// (half of the runs never delete: a delete record makes compaction take every older segment
			// along, which hides segments that are never picked on their own account)
			if (seed/3)%2 == 0 && rng.Intn(4) == 0 {
				if s.Do(Op{Op: "del", K: k}) != nil {
					return n
				}
				delete(live, k)
			} else {
				vl := 50 + rng.Intn(350)
				if s.Do(Op{Op: "put", K: k, V: fmt.Sprintf("r%d_%d_", r, i), VL: vl}) != nil {
					return n
				}
				live[k] = 10 + len(k) + vl
			}
			n++
		}
		// three round shapes (by seed): compact then restart every 5th round; restart BEFORE the compaction in
		// every round (the garbage of a session is only seen by the next one); compaction every 3rd round only
		restart := func() bool {
			if s.Do(Op{Op: "close"}) != nil {
				return false
			}
			return s.Open() == nil
		}
		switch seed % 3 {
		case 0:
			if s.Do(Op{Op: "compact"}) != nil {
				return n
			}
			if r%5 == 0 && !restart() {
				return n
			}
		case 1:
			if !restart() {
				return n
			}
			if s.Do(Op{Op: "compact"}) != nil {
				return n
			}
		default:
			if r%2 == 0 && !restart() {
				return n
			}
			if r%3 == 0 {
				if s.Do(Op{Op: "compact"}) != nil {
					return n
				}
			} else {
				continue // resources are judged after a compaction
			}
		}
		files, bytes, segs := 0, int64(0), 0
		ents, _ := os.ReadDir(dir)
		for _, e := range ents {
			files++
			if fi, err := e.Info(); err == nil {
				bytes += fi.Size()
			}
			if filepath.Ext(e.Name()) == ".psg" {
				segs++
			}
		}
		lb := 0
		for _, v := range live {
			lb += v
		}
		rec.Emit(Ev{"e": "round", "n": r, "files": files, "segs": segs, "bytes": bytes, "live": lb, "keys": len(live), "maxseg": cfg.MaxSeg,
			"fds": countFDs(), "maps": countMaps(dir), "fds0": fds0, "maps0": maps0})
	}
	s.ReadAll()
	s.Do(Op{Op: "close"})
	_ = pogreb.ErrIterationDone
	return n
}
