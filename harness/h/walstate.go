package h

import (
	"path/filepath"
	"sort"
)

// WalState projects the implementation state of the write-ahead log for strict-mode conformance
// (spec/TraceWal.tla): every segment with id, sequence id, Full flag, "is current", pogreb's own append
// offset, the file length, and the records in it as read by the independent decoder.
func (s *Sess) WalState(after string, rec []interface{}) Ev {
	type sg struct {
		ev  Ev
		seq uint64
	}
	var segs []sg
	for _, vs := range s.DB.VerifSegments() {
		raw, err := ReadWhole(s.Root, filepath.Join(s.Dir, vs.Name))
		recs := [][]interface{}{}
		if err == nil {
			if dr, _, derr := DecodeSegment(raw); derr == nil {
				for _, r := range dr {
					t := "put"
					if r.Del {
						t = "del"
					}
					recs = append(recs, []interface{}{t, Token(r.Key), Token(r.Val), r.Size})
				}
			}
		}
		segs = append(segs, sg{Ev{"id": int(vs.ID), "seq": int(vs.SequenceID), "full": vs.Full, "cur": vs.Current,
			"mem": int(vs.Size), "len": len(raw), "recs": recs,
			"puts": int(vs.PutRecords), "dels": int(vs.DeleteRecords), "dkeys": int(vs.DeletedKeys), "dbytes": int(vs.DeletedBytes)}, vs.SequenceID})
	}
	sort.Slice(segs, func(i, j int) bool { return segs[i].seq < segs[j].seq })
	out := make([]Ev, 0, len(segs))
	for _, x := range segs {
		out = append(out, x.ev)
	}
	if rec == nil {
		rec = []interface{}{}
	}
	return Ev{"e": "wal", "after": after, "rec": rec, "segs": out}
}

// IdxState projects the implementation state of the linear-hashing index for strict-mode conformance
// (spec/TraceLH.tla): level, split pointer, key and bucket counts, the free list and every chain; a bucket is
// its position in the overflow file (0 for the main bucket), its successor, and its slots in order, a slot
// being the key it points at (read from the segment file it references) and the low 16 bits of its hash.
func (s *Sess) IdxState(after, key string, raw []byte) Ev {
	d, err := s.DB.VerifIndexDump()
	if err != nil {
		return Ev{"e": "note", "what": "index dump failed: " + err.Error()}
	}
	files := map[uint16][]byte{}
	for _, vs := range s.DB.VerifSegments() {
		if b, err := ReadWhole(s.Root, filepath.Join(s.Dir, vs.Name)); err == nil {
			files[vs.ID] = b
		}
	}
	chains := make([][]Ev, 0, len(d.Chains))
	for _, ch := range d.Chains {
		bs := make([]Ev, 0, len(ch))
		for _, b := range ch {
			slots := [][]interface{}{}
			hole := false
			for _, sl := range b.Slots {
				if sl.Offset == 0 {
					hole = true
					continue
				}
				k := "?dangling"
				if f, ok := files[sl.SegmentID]; ok && int(sl.Offset)+6+int(sl.KeySize) <= len(f) {
					k = Token(f[int(sl.Offset)+6 : int(sl.Offset)+6+int(sl.KeySize)])
				}
				if hole {
					k = "?after-hole:" + k // a used slot behind an empty one is unreachable for lookups
				}
				slots = append(slots, []interface{}{k, int(sl.Hash & 0xffff)})
			}
			pos := 0
			if b.Overflow {
				pos = int(b.Offset / 512)
			}
			bs = append(bs, Ev{"pos": pos, "next": int(b.Next / 512), "slots": slots})
		}
		chains = append(chains, bs)
	}
	free := []int{}
	for _, f := range d.Free {
		free = append(free, int(f/512))
	}
	novf := 0
	if b, err := ReadWhole(s.Root, filepath.Join(s.Dir, "overflow.pix")); err == nil && len(b) >= 512 {
		novf = len(b)/512 - 1
	}
	ev := Ev{"e": "idx", "after": after, "k": key, "hk": 0, "level": int(d.Level), "split": int(d.Split), "nkeys": int(d.NumKeys),
		"nb": int(d.NumBuckets), "free": free, "novf": novf, "chains": chains}
	if raw != nil {
		ev["hk"] = int(s.DB.VerifHash(raw) & 0xffff)
	}
	return ev
}
