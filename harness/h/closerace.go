package h

import (
	"fmt"
	"math/rand"
	"os"
	"runtime/debug"
	"strings"
	"sync"
	"syscall"

	pfs "github.com/akrylysov/pogreb/fs"
)

// PoisonFS wraps a FileSystem the way a strict implementation of the fs.File contract may behave: the
// memory Slice hands out belongs to the file and is only valid while the file is open.  Slice returns a
// private window; when the file is closed (compaction removed the segment, or the database was closed)
// every small window handed out for it is overwritten with a poison byte and every big one (its own anonymous
// mapping) becomes inaccessible, as the window of a memory-mapped file does when fs.OSMMap unmaps it.  Code that copies what it needs
// while it still holds the lock that keeps Close and compaction away never sees the poison.
//
// OnBigSlice is called - from inside Slice, i.e. while the reader still holds whatever lock it took -
// for every window of at least BigSlice bytes: the close-race driver uses it to start a Close or a
// compaction at exactly the moment a reader is inside its critical section.
type PoisonFS struct {
	pfs.FileSystem
	BigSlice   int
	OnBigSlice func()
	mu         sync.Mutex
	allMaps    [][]byte
}

// Release unmaps every window mapping handed out (after the history: nobody holds one any more).
func (p *PoisonFS) Release() {
	p.mu.Lock()
	for _, m := range p.allMaps {
		syscall.Munmap(m)
	}
	p.allMaps = nil
	p.mu.Unlock()
}

const poisonByte = 0xDB

var poisonBlock = func() []byte {
	b := make([]byte, 64<<10)
	for i := range b {
		b[i] = poisonByte
	}
	return b
}()

type poisonFile struct {
	pfs.File
	fs   *PoisonFS
	mu   sync.Mutex
	out  [][]byte
	maps [][]byte
}

func (p *PoisonFS) OpenFile(name string, flag int, perm os.FileMode) (pfs.File, error) {
	f, err := p.FileSystem.OpenFile(name, flag, perm)
	if err != nil || !strings.HasSuffix(name, ".psg") {
		return f, err
	}
	return &poisonFile{File: f, fs: p}, nil
}

func (f *poisonFile) Slice(start, end int64) ([]byte, error) {
	b, err := f.File.Slice(start, end)
	if err != nil {
		return b, err
	}
	var c []byte
	if len(b) >= f.fs.BigSlice {
		// a big window is its own anonymous mapping: when the file is closed the mapping becomes inaccessible,
		// exactly as the window of a memory-mapped file does (fs.OSMMap unmaps at Close) - a reader still
		// copying from it takes a memory fault
		m, merr := syscall.Mmap(-1, 0, len(b), syscall.PROT_READ|syscall.PROT_WRITE, syscall.MAP_ANON|syscall.MAP_PRIVATE)
		if merr == nil {
			c = m
			f.mu.Lock()
			f.maps = append(f.maps, m)
			f.mu.Unlock()
			f.fs.mu.Lock()
			f.fs.allMaps = append(f.fs.allMaps, m)
			f.fs.mu.Unlock()
		}
	}
	if c == nil {
		c = make([]byte, len(b))
		f.mu.Lock()
		f.out = append(f.out, c)
		f.mu.Unlock()
	}
	copy(c, b)
	if f.fs.OnBigSlice != nil && len(c) >= f.fs.BigSlice {
		f.fs.OnBigSlice()
	}
	return c, nil
}

func (f *poisonFile) Close() error {
	f.mu.Lock()
	for _, c := range f.out {
		// from the end towards the start, block-wise: a reader still copying the window front to back meets the
		// poison in the tail however fast it copies
		for end := len(c); end > 0; end -= len(poisonBlock) {
			start := end - len(poisonBlock)
			if start < 0 {
				start = 0
			}
			copy(c[start:end], poisonBlock)
		}
	}
	f.out = nil
	for _, m := range f.maps {
		syscall.Mprotect(m, syscall.PROT_NONE)
	}
	f.maps = nil
	f.mu.Unlock()
	return f.File.Close()
}

// CloseRace runs n deterministic histories in which a Close (or a compaction that removes the segment
// being read) is started at the very moment a reader - Get, GetAppend, Has or ItemIterator.Next - is
// inside its critical section reading a value of several MiB, on PoisonFS.  Whatever the reader returns
// is judged by Layer A like any concurrent history (the value it returns must be the stored one, or the
// call lost the race with Close and returns an error); a value that was copied after the lock had been
// released comes back poisoned.
func CloseRace(rec *Rec, seed int64, n int) map[string]int {
	tot := map[string]int{}
	defer debug.SetPanicOnFault(debug.SetPanicOnFault(true)) // a fault in a call becomes a recorded fault event
	for i := 0; i < n; i++ {
		rng := rand.New(rand.NewSource(seed*1000003 + int64(i)))
		// fs.Mem underneath: its Sync is free, so a racing Close reaches the segment within microseconds
		base := pfs.Mem
		trig := make(chan struct{}, 1)
		pf := &PoisonFS{FileSystem: base, BigSlice: 1 << 20}
		id := fmt.Sprintf("closerace-%d-%d", seed, i)
		cfg := Cfg{FS: "poisonfs", MaxSeg: 1 << 16, MinSeg: 1, MinFrag: 0.0001, Strict: false}
		s := &Sess{R: rec, Cfg: cfg, Root: pf, Dir: fmt.Sprintf("closerace-%d-%d-%d", os.Getpid(), seed, i), Universe: map[string][]byte{}}
		reader := []string{"get", "getappend", "next", "get"}[rng.Intn(4)]
		racer := []string{"close", "close", "compact"}[rng.Intn(3)]
		rec.Emit(Ev{"e": "reset", "syncw": false, "strict": false, "bg": false, "dur": false, "id": id, "fs": "poisonfs",
			"run": Ev{"cmd": "closerace", "reader": reader, "racer": racer, "seed": seed}})
		keys := []string{"big0", "big1", "small0", "small1"}
		for _, k := range keys {
			s.use([]byte(k))
		}
		if err := s.Open(); err != nil {
			tot["ended_early"]++
			continue
		}
		vl := (8 + rng.Intn(17)) << 20
		s.Do(Op{Op: "put", K: "small0", V: "s0"})
		s.Do(Op{Op: "put", K: "big0", V: "B0_", VL: vl})
		s.Do(Op{Op: "put", K: "small1", V: "s1"})
		victim := "big0"
		if racer == "compact" {
			// the segment holding the value is about to be compacted: it also holds garbage
			s.Do(Op{Op: "put", K: "big1", V: "B1_", VL: 1 << 20})
			s.Do(Op{Op: "put", K: "big1", V: "B1b_", VL: 1 << 20})
			s.Do(Op{Op: "del", K: "small1"})
		}
		if reader == "next" {
			// an iterator that has not fetched the bucket holding the big value yet
			s.Do(Op{Op: "scan_start", S: 1})
		}
		var wg sync.WaitGroup
		wg.Add(1)
		go func() {
			defer wg.Done()
			debug.SetPanicOnFault(true)
			<-trig
			s.Do(Op{Op: racer, T: 1})
		}()
		pf.OnBigSlice = func() {
			select {
			case trig <- struct{}{}:
			default:
			}
		}
		switch reader {
		case "get":
			s.Do(Op{Op: "get", K: victim, T: 0})
		case "getappend":
			s.Do(Op{Op: "getappend", K: victim, Buf: "b:", T: 0})
		case "next":
			for j := 0; j < 6; j++ {
				s.Do(Op{Op: "next", S: 1, T: 0})
			}
		}
		// a reader that never asked for a big window (should not happen) must not leave the racer waiting
		select {
		case trig <- struct{}{}:
		default:
		}
		wg.Wait()
		pf.OnBigSlice = nil
		if racer == "compact" {
			s.ReadAll()
			s.Do(Op{Op: "close", T: 0})
		}
		s.DB = nil
		// the clean reopen: exactly the closed contents
		if err := s.Open(); err == nil {
			s.Do(Op{Op: "close", T: 0})
		}
		// fs.Mem keeps files for ever: drop the big ones
		for _, n := range ListDir(pf, s.Dir) {
			pf.Remove(s.Dir + "/" + n)
		}
		pf.Release()
		tot["histories"]++
		tot["ops"] += 8
	}
	tot["events"] = rec.Events
	tot["recordings"] = rec.Recs
	return tot
}
