package h

import (
	"bytes"
	"encoding/json"
	"fmt"
	"log"
	"os"
	"path/filepath"
	"runtime/debug"
	"sort"
	"strings"
	"sync"

	"github.com/akrylysov/pogreb"
	pfs "github.com/akrylysov/pogreb/fs"
)

// Cfg is the configuration of one recording.
type Cfg struct {
	FS      string  `json:"fs"` // crashfs | mem | os | osmmap
	SyncW   bool    `json:"syncw"`
	MaxSeg  uint32  `json:"maxseg"`
	MinSeg  uint32  `json:"minseg"`
	MinFrag float32 `json:"minfrag"`
	Strict  bool    `json:"strict"`
	Mult    int     `json:"mult,omitempty"`
}

// Op is one step of a program.
type Op struct {
	Op  string `json:"op"`
	T   int    `json:"t,omitempty"`
	K   string `json:"k,omitempty"`
	V   string `json:"v,omitempty"`
	Buf string `json:"buf,omitempty"`
	KL  int    `json:"kl,omitempty"` // synthesize a key of this length from K
	VL  int    `json:"vl,omitempty"` // synthesize a value of this length from V
	N   int    `json:"n,omitempty"`  // crashat/powerat: which mutating call of the next op
	Cut int    `json:"cut,omitempty"`
	Dir string `json:"dir,omitempty"`
	S   int    `json:"s,omitempty"` // scan id
	// Inject runs operations of "another goroutine" at the yield points of Compact / Backup
	// (the points where they hold no database lock).
	Inject []Inject `json:"inject,omitempty"`
}

// Inject places operations at the At-th yield point (1-based) of a maintenance call.
type Inject struct {
	At  int  `json:"at"`
	Ops []Op `json:"ops"`
}

// Program is a configuration plus a list of steps.
type Program struct {
	ID  string `json:"id"`
	Cfg Cfg    `json:"cfg"`
	Ops []Op   `json:"ops"`
}

// logCapture collects pogreb's log output. Opens can nest (an image is reopened from inside a
// fault hook while another Open is in progress): lines go to the innermost frame.
type logCapture struct {
	mu     sync.Mutex
	frames []*bytes.Buffer
}

func (l *logCapture) Write(p []byte) (int, error) {
	l.mu.Lock()
	defer l.mu.Unlock()
	if n := len(l.frames); n > 0 {
		l.frames[n-1].Write(p)
	}
	return len(p), nil
}

func (l *logCapture) push() {
	l.mu.Lock()
	l.frames = append(l.frames, &bytes.Buffer{})
	l.mu.Unlock()
}

func (l *logCapture) pop() string {
	l.mu.Lock()
	defer l.mu.Unlock()
	n := len(l.frames)
	s := l.frames[n-1].String()
	l.frames = l.frames[:n-1]
	return s
}

// Logs is the global capture of pogreb's logger.
var Logs = &logCapture{}

func init() {
	pogreb.SetLogger(log.New(Logs, "", 0))
}

// Expand synthesizes a byte string of length n from a short tag.
func Expand(tag string, n int) []byte {
	if n <= 0 {
		return []byte(tag)
	}
	b := make([]byte, n)
	if len(tag) == 0 {
		tag = "\x00"
	}
	for i := range b {
		b[i] = tag[i%len(tag)] ^ byte(i>>8) ^ byte(i>>16)
	}
	copy(b, tag)
	return b
}

func (o Op) key() []byte {
	if o.KL > 0 {
		return Expand(o.K, o.KL)
	}
	return []byte(o.K)
}

func (o Op) val() []byte {
	if o.VL > 0 {
		return Expand(o.V, o.VL)
	}
	return []byte(o.V)
}

// ErrKind classifies an error message for the specification.
func ErrKind(err error) string {
	if err == nil {
		return ""
	}
	m := err.Error()
	switch {
	case strings.Contains(m, "injected transient file-system error"):
		return "injected"
	case strings.Contains(m, "too large"):
		return "toolarge"
	case strings.Contains(m, "busy"):
		return "busy"
	case strings.Contains(m, "locked"):
		return "locked"
	}
	return "other"
}

func errStr(err error) string {
	if err == nil {
		return ""
	}
	return err.Error()
}

// Sess drives one database directory and records what happens.
type Sess struct {
	R    *Rec
	Cfg  Cfg
	Root pfs.FileSystem
	Dir  string
	DB   *pogreb.DB
	// Universe is every key (as bytes) the run has used so far, by token.
	Universe map[string][]byte
	// EvIndex counts inv/ret events (image de-duplication epoch).
	EvIndex int
	mu      sync.Mutex
	scans   map[int]*pogreb.ItemIterator
	// AfterInjected is called after every injected operation (fault images, probes).
	AfterInjected func(o Op)
	Yields        int // yield points seen in the last maintenance call
	lastDone      bool
	// ClosedRes: after every successful Close on a real file system, record how many descriptors and mappings of the
	// database directory the process still holds (C15: none - a leak per session grows with history).
	ClosedRes bool
	// WalStates logs the projected state of the write-ahead log after every call (strict mode, spec/TraceWal.tla).
	WalStates bool
	// NoListing suppresses the directory listing after Compact (golden directories written by the pinned
	// version may contain side files that version leaked).
	NoListing bool
	// Digest accumulates a hash of every response (differential runs, C17).
	Digest  bool
	resHash uint64
	nres    int
	// Hold keeps every byte slice the database returned and re-reads it later (C14).
	Hold    bool
	held    []heldSlice
	heldSeq int
	ops     int
}

// Options builds pogreb options for a root file system.
func (c Cfg) Options(root pfs.FileSystem) *pogreb.Options {
	o := &pogreb.Options{FileSystem: root}
	if c.SyncW {
		o.BackgroundSyncInterval = -1
	}
	pogreb.VerifSetThresholds(o, c.MaxSeg, c.MinSeg, c.MinFrag)
	return o
}

// NewSess starts a recording.
func NewSess(r *Rec, cfg Cfg, root pfs.FileSystem, dir string, id string, extra Ev) *Sess {
	s := &Sess{R: r, Cfg: cfg, Root: root, Dir: dir, Universe: map[string][]byte{}}
	ev := Ev{"e": "reset", "syncw": cfg.SyncW, "strict": cfg.Strict, "bg": false, "dur": true, "id": id, "fs": cfg.FS,
		"maxseg": cfg.MaxSeg, "minseg": cfg.MinSeg, "minfrag": cfg.MinFrag}
	for k, v := range extra {
		ev[k] = v
	}
	r.Emit(ev)
	return s
}

// Obs is what a read-back of a database observed.
type Obs struct {
	Err       string
	Recovered bool
	KV        map[string]string
	Count     int
	Has       []string
	Items     [][2]string
}

// Event renders the observation.
func (o *Obs) Event(kind string) Ev {
	kv := o.KV
	if kv == nil {
		kv = map[string]string{}
	}
	has := o.Has
	if has == nil {
		has = []string{}
	}
	items := o.Items
	if items == nil {
		items = [][2]string{}
	}
	return Ev{"e": kind, "err": o.Err, "recovered": o.Recovered, "kv": kv, "count": o.Count, "has": has, "items": items}
}

// ReadBack reads everything through the public API. A panic of the code under test is an
// observation (reported in Err), not a failure of the harness.
func ReadBack(db *pogreb.DB, universe map[string][]byte) (o *Obs) {
	o = &Obs{KV: map[string]string{}}
	defer func() {
		if p := recover(); p != nil {
			o.Err = fmt.Sprintf("panic: %v", p)
		}
	}()
	toks := make([]string, 0, len(universe))
	for t := range universe {
		toks = append(toks, t)
	}
	sort.Strings(toks)
	for _, t := range toks {
		k := universe[t]
		v, err := db.Get(k)
		if err != nil {
			o.Err = "get: " + err.Error()
			return o
		}
		if v != nil {
			o.KV[t] = Token(v)
		}
		ok, err := db.Has(k)
		if err != nil {
			o.Err = "has: " + err.Error()
			return o
		}
		if ok {
			o.Has = append(o.Has, t)
		}
	}
	o.Count = int(db.Count())
	it := db.Items()
	for n := 0; ; n++ {
		k, v, err := it.Next()
		if err == pogreb.ErrIterationDone {
			break
		}
		if err != nil {
			o.Err = "items: " + err.Error()
			return o
		}
		o.Items = append(o.Items, [2]string{Token(k), Token(v)})
		if n > 10*len(universe)+1000 {
			o.Err = "items: does not terminate"
			return o
		}
	}
	return o
}

// OpenObserved opens dir on root, reports whether recovery ran, and reads everything back.
func OpenObserved(cfg Cfg, root pfs.FileSystem, dir string, universe map[string][]byte) (*pogreb.DB, *Obs) {
	var db *pogreb.DB
	var err error
	var logged string
	func() {
		Logs.push()
		defer func() {
			logged = Logs.pop()
			if p := recover(); p != nil {
				if _, ok := p.(abandon); ok {
					panic(p)
				}
				err = fmt.Errorf("panic: %v", p)
			}
		}()
		db, err = pogreb.Open(dir, cfg.Options(root))
	}()
	if err != nil {
		return nil, &Obs{Err: "open: " + err.Error()}
	}
	rec := strings.Contains(logged, "recover")
	var o *Obs
	func() {
		defer func() {
			if p := recover(); p != nil {
				o = &Obs{Err: fmt.Sprintf("panic: %v", p)}
			}
		}()
		o = ReadBack(db, universe)
	}()
	o.Recovered = rec
	return db, o
}

// abandon is panicked by a fault hook to simulate the death of the process inside a call.
type abandon struct{}

// Open opens the session's database and records the observation.
func (s *Sess) Open() error {
	db, o := OpenObserved(s.Cfg, s.Root, s.Dir, s.Universe)
	s.DB = db
	s.R.Emit(o.Event("reopened"))
	if db != nil && s.WalStates {
		after := "open"
		if o.Recovered {
			after = "recovered"
		}
		s.R.Emit(s.WalState(after, nil))
		if pogreb.VerifPinnedSeed != nil {
			s.R.Emit(s.IdxState(after, "", nil))
		}
	}
	if db != nil {
		// information for the reader of a recording (not judged): the shape of the reloaded index
		if d, err := db.VerifIndexDump(); err == nil {
			ov := 0
			for _, c := range d.Chains {
				ov += len(c) - 1
			}
			s.R.Emit(Ev{"e": "note", "what": "index", "level": int(d.Level), "split": int(d.Split), "buckets": int(d.NumBuckets), "keys": int(d.NumKeys), "overflow": ov, "free": len(d.Free)})
		}
	}
	if o.Err != "" {
		return fmt.Errorf("%s", o.Err)
	}
	return nil
}

// ReadAll records a full read-back of the open database.
func (s *Sess) ReadAll() {
	o := ReadBack(s.DB, s.Universe)
	s.R.Emit(o.Event("readall"))
}

func (s *Sess) use(k []byte) string {
	t := Token(k)
	s.mu.Lock()
	if _, ok := s.Universe[t]; !ok {
		s.Universe[t] = append([]byte(nil), k...)
	}
	s.mu.Unlock()
	return t
}

// Do executes one API call with inv/ret events. It returns the call's error.
func (s *Sess) Do(o Op) error {
	db := s.DB
	if o.Op == "palign" {
		// a put whose record ends N bytes before a sector boundary of the current segment, so that the
		// NEXT record straddles the boundary with only N bytes (a partial header when N < 6) in front of it
		size := int64(512)
		for _, sg := range db.VerifSegments() {
			if sg.Current {
				size = sg.Size
			}
		}
		k := o.key()
		base := size + int64(10+len(k))
		end := (base/512 + 1) * 512
		vl := end - int64(o.N) - base
		if vl < 0 {
			vl += 512
		}
		o = Op{Op: "put", T: o.T, K: o.K, KL: o.KL, V: o.V, VL: int(vl)}
		if vl == 0 {
			o.V = ""
		}
	}
	inv := Ev{"e": "inv", "t": o.T, "op": o.Op}
	var key, val []byte
	switch o.Op {
	case "put":
		key, val = o.key(), o.val()
		inv["k"], inv["v"], inv["kl"], inv["vl"] = s.use(key), Token(val), len(key), len(val)
	case "del", "get", "has":
		key = o.key()
		inv["k"] = s.use(key)
	case "getappend":
		key = o.key()
		inv["k"], inv["buf"] = s.use(key), o.Buf
	case "backup":
		o.Dir = s.backupDir(o.Dir)
		inv["dir"] = o.Dir
	case "next":
		inv["scan"] = o.S
	case "readall":
		s.ReadAll()
		return nil
	case "drain":
		for i := 0; i < 100000; i++ {
			s.mu.Lock()
			it := s.scans[o.S]
			s.mu.Unlock()
			if it == nil {
				return nil
			}
			before := s.lastDone
			s.lastDone = false
			if err := s.Do(Op{Op: "next", S: o.S, T: o.T}); err != nil {
				return err
			}
			if s.lastDone {
				return nil
			}
			_ = before
		}
		return fmt.Errorf("drain: scan %d does not terminate", o.S)
	case "open2":
		// a competing Open while the database is open must fail with "locked" and change nothing
		before := strings.Join(ListDir(s.Root, s.Dir), ",")
		Logs.push()
		db2, err := pogreb.Open(s.Dir, s.Cfg.Options(s.Root))
		Logs.pop()
		after := strings.Join(ListDir(s.Root, s.Dir), ",")
		s.R.Emit(Ev{"e": "open_locked", "ok": err == nil, "ek": ErrKind(err), "err": errStr(err), "before": before, "after": after})
		if db2 != nil {
			db2.Close()
		}
		return nil
	case "backup_open":
		o.Dir = s.backupDir(o.Dir)
		db2, obs := OpenObserved(s.Cfg, s.Root, o.Dir, s.Universe)
		ev := obs.Event("backup_opened")
		ev["dir"] = o.Dir
		s.R.Emit(ev)
		if db2 != nil {
			db2.Close()
		}
		return nil
	case "scan_start":
		s.mu.Lock()
		if s.scans == nil {
			s.scans = map[int]*pogreb.ItemIterator{}
		}
		s.R.Emit(Ev{"e": "scan_start", "s": o.S})
		s.scans[o.S] = db.Items()
		s.mu.Unlock()
		return nil
	}
	if len(o.Inject) > 0 {
		n := 0
		prefix := o.Op + "."
		pogreb.VerifYield = func(point string) {
			if !strings.HasPrefix(point, prefix) {
				return
			}
			n++
			s.Yields = n
			for _, in := range o.Inject {
				if in.At == n {
					for _, io := range in.Ops {
						s.Do(io)
						if s.AfterInjected != nil {
							s.AfterInjected(io)
						}
					}
				}
			}
		}
		defer func() { pogreb.VerifYield = nil }()
	}
	s.mu.Lock()
	s.EvIndex++
	s.mu.Unlock()
	s.R.Emit(inv)
	ret := Ev{"e": "ret", "t": o.T, "op": o.Op}
	var err error
	var listing Ev
	func() {
		defer func() {
			if p := recover(); p != nil {
				if _, ok := p.(abandon); ok {
					panic(p)
				}
				err = fmt.Errorf("panic: %v", p)
				s.R.Emit(Ev{"e": "fault", "what": fmt.Sprint(p), "op": o.Op})
			}
		}()
		switch o.Op {
		case "put":
			err = db.Put(key, val)
			scribble(key, val)
		case "del":
			err = db.Delete(key)
			scribble(key)
		case "get":
			var v []byte
			v, err = db.Get(key)
			s.hold(v)
			scribble(key)
			ret["nil"], ret["v"] = v == nil, Token(v)
			if v == nil {
				ret["v"] = ""
			}
		case "getappend":
			var v []byte
			var gbuf []byte
			if o.Buf != "" {
				gbuf = []byte(o.Buf)
			}
			v, err = db.GetAppend(key, gbuf)
			s.hold(v)
			scribble(key)
			// With a nil/empty buffer an empty value and a missing key both give an empty result
			// (append(nil, empty...) is nil): that call cannot tell them apart and is not asked to.
			ret["amb"] = len(gbuf) == 0 && len(v) == 0
			ret["nil"], ret["v"], ret["pre"] = v == nil, "", ""
			if v != nil {
				n := len(o.Buf)
				if n > len(v) {
					n = len(v)
				}
				ret["pre"], ret["v"] = string(v[:n]), Token(v[n:])
			}
		case "has":
			var ok bool
			ok, err = db.Has(key)
			ret["found"] = ok
		case "count":
			ret["n"] = int(db.Count())
		case "items":
			items := [][2]string{}
			it := db.Items()
			for n := 0; ; n++ {
				k, v, e := it.Next()
				if e == pogreb.ErrIterationDone {
					break
				}
				if e != nil {
					err = e
					break
				}
				items = append(items, [2]string{Token(k), Token(v)})
				if n > 10*len(s.Universe)+1000 {
					err = fmt.Errorf("items: does not terminate")
					break
				}
			}
			ret["items"] = items
		case "sync":
			err = db.Sync()
		case "compact":
			var cr pogreb.CompactionResult
			before := segNames(ListDir(s.Root, s.Dir))
			cr, err = db.Compact()
			ret["segments"], ret["records"] = cr.CompactedSegments, cr.ReclaimedRecords
			if err == nil && s.Cfg.Strict && !s.NoListing {
				// C15: what the directory looks like after a successful compaction
				after := ListDir(s.Root, s.Dir)
				have := map[string]bool{}
				for _, n := range after {
					have[n] = true
				}
				removed := []string{}
				for _, n := range before {
					if !have[n] {
						removed = append(removed, n)
					}
				}
				listing = Ev{"e": "listing", "files": ClassifyFiles(after), "removed": removed, "reported": cr.CompactedSegments}
			}
		case "next":
			s.mu.Lock()
			it := s.scans[o.S]
			s.mu.Unlock()
			var k, v []byte
			k, v, err = it.Next()
			s.hold(k)
			s.hold(v)
			ret["done"], ret["k"], ret["v"] = false, Token(k), Token(v)
			if err == pogreb.ErrIterationDone {
				ret["done"], err = true, nil
				s.lastDone = true
			}
		case "close":
			err = db.Close()
		case "backup":
			err = db.Backup(o.Dir)
		default:
			err = fmt.Errorf("unknown op %q", o.Op)
		}
	}()
	ret["err"], ret["ek"] = errStr(err), ErrKind(err)
	if s.Digest && err != nil {
		ret["err"] = ErrKind(err) // messages of the OS file systems contain paths
	}
	s.mu.Lock()
	s.EvIndex++
	s.mu.Unlock()
	s.R.Emit(ret)
	if s.Digest {
		b, _ := json.Marshal(ret)
		s.mu.Lock()
		s.nres++
		s.resHash = s.resHash*1099511628211 ^ fnv64(b)
		s.mu.Unlock()
	}
	if listing != nil {
		s.R.Emit(listing)
	}
	if s.ClosedRes && o.Op == "close" && err == nil {
		if abs, aerr := filepath.Abs(s.Dir); aerr == nil {
			s.R.Emit(Ev{"e": "closed_res", "fds": openUnder(s.Dir), "maps": countMaps(abs + "/")})
		}
	}
	if s.WalStates && err == nil && s.DB != nil && o.Op != "close" && o.Op != "next" {
		var rec []interface{}
		switch o.Op {
		case "put":
			rec = []interface{}{"put", inv["k"], inv["v"], 10 + inv["kl"].(int) + inv["vl"].(int)}
		case "del":
			rec = []interface{}{"del", inv["k"], "", 10 + len(key)} // (scribbled, but the length stays)
		}
		s.R.Emit(s.WalState(o.Op, rec))
		if pogreb.VerifPinnedSeed != nil {
			if o.Op == "put" || o.Op == "del" {
				s.R.Emit(s.IdxState(o.Op, inv["k"].(string), o.key()))
			} else {
				s.R.Emit(s.IdxState(o.Op, "", nil))
			}
		}
	}
	if s.Hold {
		s.ops++
		if s.ops%7 == 0 || o.Op == "close" || o.Op == "compact" {
			s.ObserveHeld()
		}
	}
	return err
}

// backupDir places a backup next to the database directory (never relative to the working directory).
func (s *Sess) backupDir(name string) string {
	if filepath.IsAbs(name) || s.Cfg.FS == "crashfs" || s.Cfg.FS == "" {
		return name
	}
	return filepath.Join(filepath.Dir(s.Dir), name)
}

func segNames(names []string) []string {
	var r []string
	for _, n := range names {
		if filepath.Ext(n) == ".psg" {
			r = append(r, n)
		}
	}
	return r
}

type heldSlice struct {
	id int
	b  []byte
}

// hold remembers a slice handed out by the database.
func (s *Sess) hold(b []byte) {
	if !s.Hold || b == nil {
		return
	}
	debug.SetPanicOnFault(true)
	s.mu.Lock()
	s.heldSeq++
	id := s.heldSeq
	s.held = append(s.held, heldSlice{id, b})
	if len(s.held) > 120 {
		s.held = s.held[len(s.held)-120:]
	}
	s.mu.Unlock()
	s.R.Emit(Ev{"e": "hold", "id": id, "d": fmt.Sprintf("%d:%016x", len(b), fnv64(b))})
	// the slice is the caller's: so is its spare capacity (b = append(b, ...) is the documented idiom of
	// GetAppend).  Writing there must not reach memory the database still uses.
	if spare := b[len(b):cap(b)]; len(spare) > 0 {
		func() {
			defer func() {
				if p := recover(); p != nil {
					s.R.Emit(Ev{"e": "fault", "what": fmt.Sprintf("writing into the spare capacity of a returned slice: %v", p)})
				}
			}()
			if len(spare) > 4096 {
				spare = spare[:4096]
			}
			for i := range spare {
				spare[i] = 0x5A
			}
		}()
	}
}

// ObserveHeld re-reads every held slice (a slice into unmapped memory faults: recorded).
func (s *Sess) ObserveHeld() {
	if !s.Hold {
		return
	}
	s.mu.Lock()
	hs := append([]heldSlice(nil), s.held...)
	s.mu.Unlock()
	for _, h := range hs {
		func() {
			defer func() {
				if p := recover(); p != nil {
					s.R.Emit(Ev{"e": "fault", "what": fmt.Sprintf("reading a slice returned earlier: %v", p)})
				}
			}()
			s.R.Emit(Ev{"e": "observe", "id": h.id, "d": fmt.Sprintf("%d:%016x", len(h.b), fnv64(h.b))})
		}()
	}
}

// scribble overwrites buffers that were passed to the database: it must not keep references.
func scribble(bs ...[]byte) {
	for _, b := range bs {
		for i := range b {
			b[i] = 0xA5
		}
	}
}

// ListDir returns the base names in the database directory.
func ListDir(root pfs.FileSystem, dir string) []string {
	ents, err := root.ReadDir(dir)
	if err != nil {
		return nil
	}
	var r []string
	for _, e := range ents {
		r = append(r, e.Name())
	}
	sort.Strings(r)
	return r
}

// ClassifyFiles classifies directory entries for the C15 listing check.
func ClassifyFiles(names []string) []Ev {
	res := []Ev{}
	for _, n := range names {
		e := Ev{"name": n, "kind": "other"}
		switch {
		case n == "lock" || n == "db.pmt" || n == "index.pmt" || n == "main.pix" || n == "overflow.pix":
			e["kind"] = "fixed"
		case strings.HasSuffix(n, ".psg.pmt"):
			e["kind"], e["of"] = "segmeta", strings.TrimSuffix(n, ".pmt")
		case filepath.Ext(n) == ".psg":
			e["kind"] = "seg"
		}
		res = append(res, e)
	}
	return res
}

// RootFS returns the named real file system.
func RootFS(name string) pfs.FileSystem {
	switch name {
	case "mem":
		return pfs.Mem
	case "os":
		return pfs.OS
	case "osmmap":
		return pfs.OSMMap
	}
	return nil
}

var _ = os.ErrNotExist
