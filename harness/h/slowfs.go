package h

import (
	"os"
	"runtime"
	"strings"
	"sync/atomic"
	"time"

	pfs "github.com/akrylysov/pogreb/fs"
)

// SlowFS wraps a FileSystem so that reads of segment and index files yield the processor - and now and
// then sleep for a fraction of a millisecond - BEFORE they touch the file.  Under the locking discipline
// of the unchanged code this changes nothing but the timing; it widens every window in which a reader
// works on a file without holding the lock that keeps maintenance (compaction, Close) away from it.
func SlowFS(inner pfs.FileSystem, seed int64) pfs.FileSystem {
	return &slowFS{FileSystem: inner, state: uint64(seed)*2654435761 + 1}
}

type slowFS struct {
	pfs.FileSystem
	state uint64
}

func (s *slowFS) pause() {
	x := atomic.AddUint64(&s.state, 0x9e3779b97f4a7c15)
	x ^= x >> 31
	switch x % 8 {
	case 0:
		time.Sleep(time.Duration(50+x%400) * time.Microsecond)
	case 1, 2, 3:
		runtime.Gosched()
	}
}

func (s *slowFS) OpenFile(name string, flag int, perm os.FileMode) (pfs.File, error) {
	f, err := s.FileSystem.OpenFile(name, flag, perm)
	if err != nil || !(strings.HasSuffix(name, ".psg") || strings.HasSuffix(name, ".pix")) {
		return f, err
	}
	return &slowFile{File: f, fs: s}, nil
}

type slowFile struct {
	pfs.File
	fs *slowFS
}

func (f *slowFile) ReadAt(p []byte, off int64) (int, error) {
	f.fs.pause()
	return f.File.ReadAt(p, off)
}

func (f *slowFile) Slice(start, end int64) ([]byte, error) {
	f.fs.pause()
	return f.File.Slice(start, end)
}
