package h

import (
	"bufio"
	"encoding/json"
	"os"
)

// LoadPrograms reads one program per line.
func LoadPrograms(path string) ([]*Program, error) {
	f, err := os.Open(path)
	if err != nil {
		return nil, err
	}
	defer f.Close()
	var res []*Program
	sc := bufio.NewScanner(f)
	sc.Buffer(make([]byte, 1<<20), 1<<26)
	for sc.Scan() {
		if len(sc.Bytes()) == 0 {
			continue
		}
		p := &Program{}
		if err := json.Unmarshal(sc.Bytes(), p); err != nil {
			return nil, err
		}
		res = append(res, p)
	}
	return res, sc.Err()
}
