package h

import (
	"bufio"
	"encoding/json"
	"io"
	"os"

	pfs "github.com/akrylysov/pogreb/fs"
)

// ReadWhole reads a file through a pogreb FileSystem.
func ReadWhole(root pfs.FileSystem, name string) ([]byte, error) {
	f, err := root.OpenFile(name, os.O_RDONLY, 0640)
	if err != nil {
		return nil, err
	}
	defer f.Close()
	st, err := f.Stat()
	if err != nil {
		return nil, err
	}
	b := make([]byte, st.Size())
	if len(b) == 0 {
		return b, nil
	}
	if _, err := f.ReadAt(b, 0); err != nil && err != io.EOF {
		return nil, err
	}
	return b, nil
}

// LoadPrograms reads one program per line.
func LoadPrograms(path string) ([]*Program, error) {
	f, err := os.Open(path)
	if err != nil {
		return nil, err
	}
	defer f.Close()
	var res []*Program
	sc := bufio.NewScanner(f)
	sc.Buffer(make([]byte, 1<<20), 1<<26)
	for sc.Scan() {
		if len(sc.Bytes()) == 0 {
			continue
		}
		p := &Program{}
		if err := json.Unmarshal(sc.Bytes(), p); err != nil {
			return nil, err
		}
		res = append(res, p)
	}
	return res, sc.Err()
}

// RunParams are the runner settings a failing program was found with.
type RunParams struct {
	Mode       string `json:"mode"`
	Seed       int64  `json:"seed"`
	Depth      int    `json:"depth"`
	Twice      bool   `json:"twice"`
	PLimit     int    `json:"plimit"`
	OnlyClosed bool   `json:"onlyclosed"`
	HashSeed   uint32 `json:"hashseed"`
	Probe      bool   `json:"probe"`
	FullEvery  int    `json:"fullevery"`
	Alt        bool   `json:"alt"`
	Hold       bool   `json:"hold"`
	FailOpen   bool   `json:"failopen"`
	FailClose  bool   `json:"failclose"`
	FailMaint  bool   `json:"failmaint"`
	WalStates  bool   `json:"walstates"`
}

// RegressItem is a program plus runner settings.
type RegressItem struct {
	Prog *Program  `json:"prog"`
	Run  RunParams `json:"run"`
}

// LoadRegress reads regression items, one per line.
func LoadRegress(path string) ([]*RegressItem, error) {
	f, err := os.Open(path)
	if err != nil {
		return nil, err
	}
	defer f.Close()
	var res []*RegressItem
	sc := bufio.NewScanner(f)
	sc.Buffer(make([]byte, 1<<20), 1<<26)
	for sc.Scan() {
		if len(sc.Bytes()) == 0 {
			continue
		}
		it := &RegressItem{}
		if err := json.Unmarshal(sc.Bytes(), it); err != nil {
			return nil, err
		}
		if it.Run.PLimit == 0 {
			it.Run.PLimit = 48
		}
		res = append(res, it)
	}
	return res, sc.Err()
}
