package h

import (
	"bytes"
	"fmt"
	"io"
	"os"
	"path/filepath"
	"runtime"
	"strconv"
	"strings"
	"sync"
	"time"

	pfs "github.com/akrylysov/pogreb/fs"
)

// goid returns the current goroutine's id.
func goid() int64 {
	var buf [64]byte
	n := runtime.Stack(buf[:], false)
	f := bytes.Fields(buf[:n])
	id, _ := strconv.ParseInt(string(f[1]), 10, 64)
	return id
}

// LockScript is what one process does, e.g. ["open", "close", "open"] or ["open", "die"].
type LockScript []string

// lockActor is one simulated process (a goroutine parked at the yield points of the lock code).
type lockActor struct {
	id      int
	script  LockScript
	resume  chan struct{} // controller -> actor: perform your next step
	parked  chan string   // actor -> controller: parked at a yield point / finished an op / done
	lock    pfs.LockFile
	holding bool
}

// LockExplorer runs schedules of lock system calls against the real fs.OS lock code.
type LockExplorer struct {
	R      *Rec
	Base   string
	mu     sync.Mutex
	actors map[int64]*lockActor
	n      int
}

// stepsOf returns the number of controller steps of a script.
func stepsOf(s LockScript) int {
	n := 0
	for _, op := range s {
		switch op {
		case "open":
			n += 4 // stat, open, flock, verify (a retry needs more: the drain phase completes it)
		case "close":
			n += 2
		case "die":
			n++
		}
	}
	return n
}

// Schedules enumerates all interleavings (as sequences of actor indexes) of the scripts' steps,
// up to limit (0 = all), choosing a seeded subset if there are more.
func Schedules(scripts []LockScript, limit int, pick func(n int) int) [][]int {
	rem := make([]int, len(scripts))
	total := 0
	for i, s := range scripts {
		rem[i] = stepsOf(s)
		total += rem[i]
	}
	var res [][]int
	cur := make([]int, 0, total)
	var rec func()
	rec = func() {
		if len(cur) == total {
			res = append(res, append([]int(nil), cur...))
			return
		}
		for i := range rem {
			if rem[i] > 0 {
				rem[i]--
				cur = append(cur, i)
				rec()
				cur = cur[:len(cur)-1]
				rem[i]++
			}
		}
	}
	rec()
	if limit > 0 && len(res) > limit {
		// seeded sample without replacement
		for i := 0; i < limit; i++ {
			j := i + pick(len(res)-i)
			res[i], res[j] = res[j], res[i]
		}
		res = res[:limit]
	}
	return res
}

// Run executes one schedule on a fresh directory and records it. It returns false if the schedule
// could not be followed (an actor had no step left, e.g. because its Open failed and the script
// wanted to close): such schedules are recorded up to that point.
func (x *LockExplorer) Run(id string, scripts []LockScript, sched []int) {
	x.n++
	dir := filepath.Join(x.Base, fmt.Sprintf("lk%d-%d", os.Getpid(), x.n))
	os.MkdirAll(dir, 0755)
	defer os.RemoveAll(dir)
	path := filepath.Join(dir, "lock")
	x.R.Emit(Ev{"e": "reset", "id": id, "scripts": scripts, "sched": sched})

	x.mu.Lock()
	x.actors = map[int64]*lockActor{}
	x.mu.Unlock()
	pfs.VerifYield = func(point string) {
		if point == "lock.acquired" {
			return
		}
		x.mu.Lock()
		a := x.actors[goid()]
		x.mu.Unlock()
		if a == nil {
			return
		}
		a.parked <- point
		<-a.resume
	}
	defer func() { pfs.VerifYield = nil }()

	actors := make([]*lockActor, len(scripts))
	for i, s := range scripts {
		a := &lockActor{id: i, script: s, resume: make(chan struct{}), parked: make(chan string, 1)}
		actors[i] = a
		go func() {
			x.mu.Lock()
			x.actors[goid()] = a
			x.mu.Unlock()
			for _, op := range a.script {
				switch op {
				case "open":
					a.parked <- "begin:open"
					<-a.resume
					x.R.Emit(Ev{"e": "lk_inv", "p": a.id, "op": "open"})
					lock, existing, err := pfs.OS.CreateLockFile(path, 0644)
					a.lock, a.holding = lock, err == nil
					ek := ""
					if err != nil {
						ek = "other"
						if err == os.ErrExist {
							ek = "locked"
						}
					}
					// (that a failed Open leaves the directory unchanged is checked on sequential
					// histories of whole databases, where nobody else touches the directory)
					x.R.Emit(Ev{"e": "lk_ret", "p": a.id, "op": "open", "ok": err == nil, "existing": existing, "ek": ek,
						"err": errStr(err), "before": "", "after": ""})
				case "close":
					a.parked <- "begin:close"
					<-a.resume
					if !a.holding {
						a.parked <- "skip"
						continue
					}
					x.R.Emit(Ev{"e": "lk_inv", "p": a.id, "op": "close"})
					err := a.lock.Unlock()
					a.holding = false
					x.R.Emit(Ev{"e": "lk_ret", "p": a.id, "op": "close", "ok": err == nil, "err": errStr(err)})
				case "die":
					a.parked <- "begin:die"
					<-a.resume
					if !a.holding {
						a.parked <- "skip"
						continue
					}
					// the kernel closes the descriptor of a dead process; the lock file stays
					if c, ok := a.lock.(io.Closer); ok {
						c.Close()
					}
					a.holding = false
					x.R.Emit(Ev{"e": "lk_die", "p": a.id})
				}
				a.parked <- "opdone"
			}
			a.parked <- "done"
		}()
	}
	// every actor first parks at the beginning of its first op
	state := make([]string, len(actors))
	for i, a := range actors {
		state[i] = <-a.parked
	}
	release := func(i int) string {
		a := actors[i]
		a.resume <- struct{}{}
		select {
		case s := <-a.parked:
			return s
		case <-time.After(10 * time.Second):
			return "timeout"
		}
	}
	// advance actor i by exactly one system-call step
	stepOne := func(i int) bool {
		for {
			switch st := state[i]; {
			case st == "done":
				return false
			case st == "timeout":
				return false
			case strings.HasPrefix(st, "begin:"):
				// releasing the begin gate leads to the first yield point of the op (or straight to opdone for die)
				state[i] = release(i)
				if st == "begin:die" {
					// die is a single step and has been performed (or skipped)
					if state[i] == "opdone" || state[i] == "skip" {
						state[i] = <-actors[i].parked // next begin or done
					}
					return true
				}
				if state[i] == "skip" {
					state[i] = <-actors[i].parked
					continue
				}
			case st == "opdone":
				state[i] = <-actors[i].parked
			case st == "skip":
				state[i] = <-actors[i].parked
			default:
				// parked at a yield point: perform the system call behind it
				state[i] = release(i)
				if state[i] == "opdone" {
					state[i] = <-actors[i].parked
				}
				return true
			}
		}
	}
	for _, i := range sched {
		stepOne(i)
	}
	// drain: let everybody finish (holders close) so that goroutines and descriptors are released
	for progress := true; progress; {
		progress = false
		for i := range actors {
			if state[i] != "done" && state[i] != "timeout" {
				if stepOne(i) {
					progress = true
				}
			}
		}
	}
	for _, a := range actors {
		if a.holding && a.lock != nil {
			a.lock.Unlock()
		}
	}
}
