package h

import (
	"fmt"
	"math/rand"
	"path/filepath"
	"sort"
	"strings"
	"time"

	"verif/harness/crashfs"
)

// Runner executes programs and, on crashfs, enumerates fault images.
type Runner struct {
	S     *Sess
	Mode  string // seq | crash | power
	FS    *crashfs.FS
	Rng   *rand.Rand
	Dir   string
	Depth int  // nesting of crash points inside recovering Opens
	Twice bool // recover every image twice (C04 idempotence)
	// FailOpen: before some images are reopened, an Open attempt is made that fails with an injected
	// file-system error at a seeded call (a transient fault, e.g. EMFILE); the process exits and the
	// directory is opened again.  The property speaks about the next SUCCESSFUL Open.
	FailOpen bool
	// FailClose: some Close calls fail with an injected file-system error at a seeded mutating call; the
	// process then "exits" and the run goes on in the directory as that Close left it (C13: a session
	// that did not complete Close must be recovered; whatever Close did before failing must be harmless).
	FailClose    bool
	FailedCloses int
	// FailMaint: some Compact / Sync / Backup calls fail with an injected file-system error at a seeded mutating
	// call; the call returns the error and the database must stay usable: the next call returns (watchdog) and a
	// read-back shows the contents untouched (C10: no lock left behind on an error path, C15: usable afterwards).
	FailMaint   bool
	FailedMaint int
	maintFailed bool // a maintenance call of this program failed with an injected error
	FailedOpens int
	// ReadBack after every mutating call.
	ReadEvery bool
	// Alt alternates fs.OS and fs.OSMMap between sessions.
	Alt bool
	// Probe replaces the full read-back after every write by Count + Get of the written key.
	Probe     bool
	FullEvery int
	// OnlyClosed examines fault images only between the return of Close and the end of the next Open (C09).
	OnlyClosed bool
	closedWin  bool
	// PowerLimit bounds the number of power-loss images examined per instant.
	PowerLimit int
	// ImageEvery examines fault images only at every n-th instant (1 = all).
	seen map[[3]uint64]bool

	inHook    bool
	callsInOp int
	crashAt   *Op // continue the run inside an image taken during the next call
	target    crashfs.Content
	tgtLossy  bool

	// statistics
	Instants int
	Images   int
	Distinct int
	Nested   int
	Epochs   int
	Ops      int
}

// NewRunner prepares a runner for one program.
func NewRunner(rec *Rec, p *Program, rp RunParams) *Runner {
	mode, seed := rp.Mode, rp.Seed
	if rp.PLimit == 0 {
		rp.PLimit = 48
	}
	if rp.HashSeed == 0 {
		rp.HashSeed = CurrentHashSeed()
	}
	r := &Runner{Mode: mode, Rng: rand.New(rand.NewSource(seed)), Dir: "db", seen: map[[3]uint64]bool{}, PowerLimit: rp.PLimit,
		Depth: rp.Depth, Twice: rp.Twice, ReadEvery: true, Probe: rp.Probe, FullEvery: rp.FullEvery, OnlyClosed: rp.OnlyClosed, FailOpen: rp.FailOpen, FailClose: rp.FailClose, FailMaint: rp.FailMaint}
	cfg := p.Cfg
	switch cfg.FS {
	case "", "crashfs":
		cfg.FS = "crashfs"
		r.FS = crashfs.New()
		r.S = NewSess(rec, cfg, r.FS, r.Dir, p.ID, Ev{"prog": p, "run": rp})
		r.S.AfterInjected = r.afterInjected
		r.S.Hold = rp.Hold
		r.S.WalStates = rp.WalStates && mode == "seq"
		if mode != "seq" {
			r.FS.Hook = r.hook
		}
	default:
		panic("NewRunner: use NewRunnerOn for real file systems")
	}
	return r
}

// NewRunnerOn prepares a sequential runner on one of pogreb's own file systems.
func NewRunnerOn(rec *Rec, p *Program, dir string, rp RunParams) *Runner {
	if rp.HashSeed == 0 {
		rp.HashSeed = CurrentHashSeed()
	}
	rp.Mode = "seq"
	r := &Runner{Mode: "seq", Rng: rand.New(rand.NewSource(rp.Seed)), Dir: dir, seen: map[[3]uint64]bool{},
		ReadEvery: true, Probe: rp.Probe, FullEvery: rp.FullEvery, Alt: rp.Alt}
	r.S = NewSess(rec, p.Cfg, RootFS(p.Cfg.FS), dir, p.ID, Ev{"prog": p, "run": rp})
	r.S.ClosedRes = p.Cfg.FS == "os" || p.Cfg.FS == "osmmap"
	r.S.AfterInjected = r.afterInjected
	r.S.Hold = rp.Hold
	r.S.WalStates = rp.WalStates
	return r
}

func (r *Runner) relevant(lock bool) func(string) bool {
	if !lock {
		return nil
	}
	// an unclean directory is recovered from the segment files alone
	return func(n string) bool { return filepath.Ext(n) == ".psg" || filepath.Base(n) == "lock" }
}

func (r *Runner) hook(fs *crashfs.FS, c *crashfs.Call) {
	if r.inHook {
		return
	}
	r.inHook = true
	defer func() { r.inHook = false }()
	im := fs.Snapshot()
	r.instant(im, c, r.Depth)
	if r.crashAt != nil && r.callsInOp == r.crashAt.N {
		r.chooseTarget(im, c)
		r.inHook = false
		panic(abandon{})
	}
	r.callsInOp++
}

// chooseTarget picks the image in which the run continues.
func (r *Runner) chooseTarget(im *crashfs.Image, c *crashfs.Call) {
	if r.Mode == "power" {
		cs := r.powerContents(im, 6)
		r.target = cs[r.Rng.Intn(len(cs))]
		r.tgtLossy = true
		return
	}
	r.tgtLossy = false
	r.target = im.CrashContent()
	if c != nil && c.Kind == "write" && r.crashAt != nil && r.crashAt.Cut > 0 {
		cuts := crashfs.TornCuts(c.Off, len(c.Data))
		if len(cuts) > 0 {
			r.target = im.WithTornWrite(c, cuts[(r.crashAt.Cut-1)%len(cuts)])
		}
	}
}

// instant examines the fault images of one instant (before call c, or between calls if c is nil).
func (r *Runner) instant(im *crashfs.Image, c *crashfs.Call, depth int) {
	if r.OnlyClosed && !r.closedWin {
		return
	}
	r.Instants++
	switch r.Mode {
	case "crash":
		r.examine(im.CrashContent(), false, depth)
		if c != nil && c.Kind == "write" {
			cuts := crashfs.TornCuts(c.Off, len(c.Data))
			if len(cuts) > 8 {
				pick := append([]int64{}, cuts[:3]...)
				pick = append(pick, cuts[len(cuts)-3:]...)
				pick = append(pick, cuts[3+r.Rng.Intn(len(cuts)-6)])
				cuts = pick
			}
			for _, cut := range cuts {
				r.examine(im.WithTornWrite(c, cut), false, depth)
			}
		}
	case "power":
		for _, cont := range r.powerContents(im, r.PowerLimit) {
			r.examine(cont, true, depth)
		}
	}
}

// powerContents enumerates admissible power-loss images of a snapshot.
func (r *Runner) powerContents(im *crashfs.Image, limit int) []crashfs.Content {
	lock := im.Has(filepath.Join(r.Dir, "lock"))
	rel := r.relevant(lock)
	pc := im.PendingCounts()
	var files []string
	for n := range pc {
		if rel == nil || rel(n) {
			files = append(files, n)
		}
	}
	sort.Strings(files)
	opts := make([][]crashfs.Keep, len(files))
	total := 1
	for i, n := range files {
		for k := 0; k <= pc[n]; k++ {
			opts[i] = append(opts[i], crashfs.Keep{N: k})
			if k < pc[n] {
				cuts := im.PendingCuts(n, k)
				if len(cuts) > 2 {
					cuts = []int64{cuts[0], cuts[len(cuts)-1]}
				}
				for _, cut := range cuts {
					opts[i] = append(opts[i], crashfs.Keep{N: k, Cut: cut})
				}
			}
		}
		if total <= 1<<20 {
			total *= len(opts[i])
		}
	}
	var res []crashfs.Content
	add := func(choice []int) {
		keep := map[string]crashfs.Keep{}
		for i, n := range files {
			keep[n] = opts[i][choice[i]]
		}
		res = append(res, im.PowerLossContent(keep, true))
	}
	if total <= limit {
		choice := make([]int, len(files))
		for {
			add(choice)
			i := 0
			for ; i < len(files); i++ {
				choice[i]++
				if choice[i] < len(opts[i]) {
					break
				}
				choice[i] = 0
			}
			if i == len(files) {
				break
			}
		}
		return res
	}
	mins := make([]int, len(files))
	maxs := make([]int, len(files))
	for i := range files {
		// the last option with Cut == 0 is "everything"
		for j, o := range opts[i] {
			if o.Cut == 0 {
				maxs[i] = j
			}
		}
	}
	add(mins)
	add(maxs)
	for i := range files {
		for j := range opts[i] {
			if len(res) >= limit {
				break
			}
			a := append([]int{}, mins...)
			a[i] = j
			add(a)
			b := append([]int{}, maxs...)
			b[i] = j
			add(b)
		}
	}
	for len(res) < limit {
		ch := make([]int, len(files))
		for i := range files {
			ch[i] = r.Rng.Intn(len(opts[i]))
		}
		add(ch)
	}
	return res
}

// examine reopens one image with the real code and records the fork.
func (r *Runner) examine(cont crashfs.Content, lossy bool, depth int) {
	r.Images++
	lock := false
	if _, ok := cont[filepath.Join(r.Dir, "lock")]; ok {
		lock = true
	}
	ly := uint64(0)
	if lossy {
		ly = 1
	}
	key := [3]uint64{cont.Digest(r.relevant(lock)), ly, uint64(r.S.EvIndex)}
	if r.seen[key] {
		return
	}
	r.seen[key] = true
	r.Distinct++
	fs2 := crashfs.FromContent(cont)
	if depth > 0 {
		var hk func(f *crashfs.FS, c *crashfs.Call)
		hk = func(f *crashfs.FS, c *crashfs.Call) {
			f.Hook = nil
			defer func() { f.Hook = hk }()
			r.Nested++
			save := r.Mode
			if lossy {
				// a second failure during the recovery from a power loss
				r.Mode = "power"
			}
			r.instant(f.Snapshot(), c, depth-1)
			r.Mode = save
		}
		fs2.Hook = hk
	}
	failedAttempt := false
	if r.FailOpen && r.Rng.Intn(3) == 0 {
		// a failing Open attempt first
		n, at, reads := 0, 1+r.Rng.Intn(14), r.Rng.Intn(2) == 0
		injected := fmt.Errorf("injected transient file-system error")
		if reads {
			fs2.FailRead = func(kind, name string) error {
				n++
				if n == at {
					return injected
				}
				return nil
			}
		} else {
			fs2.Fail = func(c *crashfs.Call) error {
				n++
				if n == at {
					return injected
				}
				return nil
			}
		}
		hk := fs2.Hook
		fs2.Hook = nil
		dbf, obsf := OpenObserved(r.S.Cfg, fs2, r.Dir, r.S.Universe)
		fs2.Fail, fs2.FailRead, fs2.Hook = nil, nil, hk
		if obsf.Err != "" {
			r.FailedOpens++
			failedAttempt = true
			r.S.R.Emit(Ev{"e": "note", "what": "an Open attempt failed with an injected error and the process exited", "err": obsf.Err, "call": at, "reads": reads})
		} else if dbf != nil {
			// the fault did not strike (fewer calls): the database was opened; the process dies without Close,
			// which leaves the directory unclean by the harness's own doing
			failedAttempt = true
		}
		fs2.DropLocks()
	}
	_, obs := OpenObserved(r.S.Cfg, fs2, r.Dir, r.S.Universe)
	r.S.R.Emit(Ev{"e": "image", "lossy": lossy, "lock": lock, "failed": failedAttempt})
	r.S.R.Emit(obs.Event("reopened"))
	if r.Twice && obs.Err == "" {
		fs3 := crashfs.FromContent(cont)
		_, obs2 := OpenObserved(r.S.Cfg, fs3, r.Dir, r.S.Universe)
		r.S.R.Emit(obs2.Event("reopened"))
	}
	r.S.R.Emit(Ev{"e": "restore"})
}

// afterInjected runs after an operation injected at a yield point of Compact / Backup.
func (r *Runner) afterInjected(o Op) {
	r.between()
	if r.ReadEvery && (o.Op == "put" || o.Op == "del") {
		r.S.Do(Op{Op: "count", T: o.T})
		r.S.Do(Op{Op: "get", K: o.K, KL: o.KL, T: o.T})
	}
}

// between examines the instant between two calls (after an operation has returned).
func (r *Runner) between() {
	if r.Mode == "seq" || r.FS == nil {
		return
	}
	r.inHook = true
	r.instant(r.FS.Snapshot(), nil, r.Depth)
	r.inHook = false
}

// continueIn makes the run go on inside an image: the next epoch.
func (r *Runner) continueIn(cont crashfs.Content, lossy bool) error {
	r.Epochs++
	lock := false
	if _, ok := cont[filepath.Join(r.Dir, "lock")]; ok {
		lock = true
	}
	fsx := crashfs.FromContent(cont)
	if r.Mode != "seq" {
		fsx.Hook = r.hook
	}
	r.FS = fsx
	r.S.Root = fsx
	r.crashAt = nil
	r.callsInOp = 0
	db, obs := OpenObserved(r.S.Cfg, fsx, r.Dir, r.S.Universe)
	failedAttempt := false
	r.S.R.Emit(Ev{"e": "image", "lossy": lossy, "lock": lock, "failed": failedAttempt})
	r.S.R.Emit(obs.Event("reopened"))
	if obs.Err != "" {
		return fmt.Errorf("continue: %s", obs.Err)
	}
	r.S.R.Emit(Ev{"e": "continue"})
	r.S.DB = db
	return nil
}

// step runs one operation; it reports whether the process "died" inside it.
func (r *Runner) step(o Op) (died bool, err error) {
	defer func() {
		if p := recover(); p != nil {
			if _, ok := p.(abandon); ok {
				died = true
				return
			}
			panic(p)
		}
	}()
	r.callsInOp = 0
	switch o.Op {
	case "reopen":
		err = r.S.Do(Op{Op: "close", T: o.T})
		if r.FS != nil {
			r.FS.Fail = nil // an injected failure (FailClose) is meant for the Close only
		}
		if err != nil {
			return false, err
		}
		r.closedWin = true
		r.between()
		if r.Alt && (r.S.Cfg.FS == "os" || r.S.Cfg.FS == "osmmap") {
			if r.S.Cfg.FS == "os" {
				r.S.Cfg.FS = "osmmap"
			} else {
				r.S.Cfg.FS = "os"
			}
			r.S.Root = RootFS(r.S.Cfg.FS)
			r.S.R.Emit(Ev{"e": "note", "what": "next session on fs=" + r.S.Cfg.FS})
		}
		err = r.S.Open()
		r.closedWin = false
	case "open":
		err = r.S.Open()
	case "tear":
		err = r.Tear(Expand(o.V, o.VL), o.Cut, o.N)
	default:
		err = r.S.Do(o)
	}
	return false, err
}

// Run executes the program. An error ends the recording (the events written so far stand).
func (r *Runner) Run(p *Program) error {
	if err := r.runOpen(); err != nil {
		return err
	}
	for i := 0; i < len(p.Ops); i++ {
		o := p.Ops[i]
		if o.Op == "crashnow" || o.Op == "powernow" {
			// the process dies (or the power fails) between two calls: the run goes on in an image of this instant
			if r.Mode == "seq" || r.FS == nil {
				continue
			}
			save := r.Mode
			if o.Op == "powernow" {
				r.Mode = "power"
			} else {
				r.Mode = "crash"
			}
			r.inHook = true
			oc := o
			r.crashAt = &oc
			r.chooseTarget(r.FS.Snapshot(), nil)
			r.inHook = false
			r.Mode = save
			if err := r.continueIn(r.target, r.tgtLossy); err != nil {
				return err
			}
			r.closedWin = false
			r.between()
			continue
		}
		if o.Op == "crashat" || o.Op == "powerat" {
			if r.Mode == "seq" || i+1 >= len(p.Ops) {
				continue
			}
			oc := o
			r.crashAt = &oc
			continue
		}
		if r.maintFailed && (o.Op == "close" || o.Op == "reopen" || o.Op == "crashnow" || o.Op == "powernow") {
			// What a restart finds after a maintenance call FAILED with a file-system error is stated by none of the
			// properties (they quantify over crashes and power failures, not over I/O errors of Compact): the
			// recording ends here, judged up to this point (the calls returned, in-session reads were right).
			r.S.R.Emit(Ev{"e": "note", "what": "the recording ends before the restart that follows a failed maintenance call"})
			if r.S.DB != nil {
				r.S.DB.Close()
				r.S.DB = nil
			}
			return nil
		}
		r.Ops++
		armed := false
		if (o.Op == "close" || o.Op == "reopen") && r.FailClose && r.FS != nil && r.S.DB != nil && r.Rng.Intn(2) == 0 {
			// Close writes the database meta, then per segment its meta (and syncs it), then the index meta and
			// syncs/closes the index files, then removes the lock: the failing call is drawn over all of that
			nseg := 0
			for _, name := range r.FS.Snapshot().Names() {
				if strings.HasSuffix(name, ".psg") {
					nseg++
				}
			}
			n, at := 0, 1+r.Rng.Intn(14+5*nseg)
			r.FS.Fail = func(c *crashfs.Call) error {
				n++
				if n == at {
					return fmt.Errorf("injected transient file-system error")
				}
				return nil
			}
			armed = true
		}
		armedM := false
		if (o.Op == "compact" || o.Op == "sync" || o.Op == "backup") && len(o.Inject) == 0 && r.FailMaint && r.FS != nil && r.S.DB != nil && r.crashAt == nil && r.Rng.Intn(2) == 0 {
			n, at := 0, 1+r.Rng.Intn(24)
			r.FS.Fail = func(c *crashfs.Call) error {
				n++
				if n == at {
					return fmt.Errorf("injected transient file-system error")
				}
				return nil
			}
			armedM = true
		}
		died, err := r.step(o)
		if armedM {
			r.FS.Fail = nil
			if !died && ErrKind(err) == "injected" {
				r.FailedMaint++
				r.maintFailed = true
				r.S.R.Emit(Ev{"e": "note", "what": o.Op + " failed with an injected error", "err": err.Error()})
				alive := make(chan struct{})
				go func() {
					r.S.Do(Op{Op: "count"})
					close(alive)
				}()
				select {
				case <-alive:
				case <-time.After(20 * time.Second):
					r.S.R.Emit(Ev{"e": "stuck", "what": "the call after a failed " + o.Op + " did not return within 20 s (a lock left behind on the error path?)"})
					r.S.DB = nil // nothing may touch this handle any more (Close would hang too)
					return fmt.Errorf("stuck after a failed %s", o.Op)
				}
				r.S.ReadAll()
				r.between()
				continue
			}
		}
		if armed {
			r.FS.Fail = nil
			if !died && ErrKind(err) == "injected" {
				// Close failed: the process exits, the next session starts in the directory as it is now
				r.FailedCloses++
				r.S.R.Emit(Ev{"e": "note", "what": "Close failed with an injected error and the process exited", "err": err.Error()})
				r.FS.DropLocks()
				if err := r.continueIn(r.FS.Snapshot().CrashContent(), false); err != nil {
					return err
				}
				r.closedWin = false
				r.between()
				continue
			}
		}
		if died {
			if err := r.continueIn(r.target, r.tgtLossy); err != nil {
				return err
			}
			r.between()
			continue
		}
		if err != nil && r.S.Cfg.Strict && !(o.Op == "put" && ErrKind(err) == "toolarge") {
			return err
		}
		if err != nil && (o.Op == "open" || o.Op == "reopen" || o.Op == "tear" || r.S.DB == nil) {
			// no database to go on with: the recording ends here (the failed Open is in it)
			return err
		}
		if r.crashAt != nil {
			// the operation had fewer calls than asked for: the process dies right after it
			r.inHook = true
			r.chooseTarget(r.FS.Snapshot(), nil)
			r.inHook = false
			if err := r.continueIn(r.target, r.tgtLossy); err != nil {
				return err
			}
			r.between()
			continue
		}
		if o.Op == "close" {
			r.closedWin = true
			r.between()
			if i+1 >= len(p.Ops) {
				return nil
			}
			continue
		}
		if o.Op == "open" {
			r.closedWin = false
		}
		r.between()
		if r.ReadEvery && isMutating(o.Op) {
			if r.Probe && (o.Op == "put" || o.Op == "del") {
				// cheap probes after every write, a full read-back every FullEvery operations
				r.S.Do(Op{Op: "count"})
				r.S.Do(Op{Op: "get", K: o.K, KL: o.KL})
				if r.FullEvery > 0 && r.Ops%r.FullEvery == 0 {
					r.S.ReadAll()
				}
			} else {
				r.S.ReadAll()
			}
		}
	}
	if r.Probe {
		r.S.ReadAll()
	}
	return nil
}

func (r *Runner) runOpen() (err error) {
	defer func() {
		if p := recover(); p != nil {
			if _, ok := p.(abandon); ok {
				err = fmt.Errorf("abandon during first open")
				return
			}
			panic(p)
		}
	}()
	return r.S.Open()
}

func isMutating(op string) bool {
	switch op {
	case "put", "del", "compact", "sync", "reopen", "open":
		return true
	}
	return false
}

// CloseAndDecode ends a sequential run: Close (recorded), then every segment file is read by the
// independent decoder of the documented format and replayed in sequence order (C18).
func (r *Runner) CloseAndDecode() {
	if r.S.DB == nil || r.Mode != "seq" {
		return
	}
	if r.maintFailed {
		// (see Run: nothing is claimed about the files after a maintenance call that failed with an I/O error)
		r.S.DB.Close()
		r.S.DB = nil
		return
	}
	if !r.closedWin { // (the program may have ended with its own Close)
		if err := r.S.Do(Op{Op: "close"}); err != nil {
			return
		}
	}
	r.S.ObserveHeld()
	r.S.DB = nil
	root, dir := r.S.Root, r.S.Dir
	type sg struct {
		seq  int
		recs []DRec
	}
	var segs []sg
	for _, n := range ListDir(root, dir) {
		_, sq, ok := ParseSegmentName(n)
		if !ok {
			continue
		}
		raw, err := ReadWhole(root, filepath.Join(dir, n))
		if err != nil {
			r.S.R.Emit(Ev{"e": "fault", "what": "reading " + n + ": " + err.Error()})
			return
		}
		recs, end, err := DecodeSegment(raw)
		if err != nil || end != len(raw) {
			r.S.R.Emit(Ev{"e": "fault", "what": fmt.Sprintf("independent decoder rejects %s written by the current code: accepted %d of %d bytes, err=%v", n, end, len(raw), err)})
			return
		}
		segs = append(segs, sg{sq, recs})
	}
	sort.Slice(segs, func(i, j int) bool { return segs[i].seq < segs[j].seq })
	kv := map[string]string{}
	n := 0
	for _, s := range segs {
		for _, rc := range s.recs {
			n++
			if rc.Del {
				delete(kv, Token(rc.Key))
			} else {
				kv[Token(rc.Key)] = Token(rc.Val)
			}
		}
	}
	r.S.R.Emit(Ev{"e": "decoded", "kv": kv, "records": n, "segments": len(segs)})
}

// Finish closes the database quietly (no events).
func (r *Runner) Finish() {
	defer func() { recover() }()
	if r.S.DB != nil {
		hook := r.FS
		if hook != nil {
			hook.Hook = nil
		}
		r.S.DB.Close()
	}
}

var _ = strings.Contains
