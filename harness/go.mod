module verif/harness

go 1.18

require github.com/akrylysov/pogreb v0.0.0

replace github.com/akrylysov/pogreb => /repo
