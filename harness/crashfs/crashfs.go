// Package crashfs is an in-memory implementation of pogreb's fs.FileSystem for fault enumeration.
//
// It numbers every mutating call, calls a hook before applying it, keeps for every file the
// content as of its last Sync plus the ordered list of writes/truncations since, and builds
//   - process-crash images: the state before any mutating call, with the in-flight data write
//     optionally applied up to a 512-byte-aligned file offset;
//   - power-loss images: directory as issued, per file the synced content plus an in-order
//     prefix of the later writes/truncations, the last write optionally cut at a 512-aligned offset.
package crashfs

import (
	"errors"
	"hash/fnv"
	"io"
	"os"
	"path/filepath"
	"sort"
	"sync"
	"time"

	pfs "github.com/akrylysov/pogreb/fs"
)

// Sector is the atomic write unit of the fault model.
const Sector = 512

type pendOp struct {
	trunc bool
	off   int64 // write offset, or new size for trunc
	data  []byte
}

type inode struct {
	data    []byte
	durable []byte
	pending []pendOp
}

// Call describes a mutating call (reported to the hook before it is applied).
type Call struct {
	N    int    // sequence number
	Kind string // create, write, truncate, remove, rename, sync, lock, unlock
	Name string
	To   string // rename target
	Off  int64
	Data []byte // write payload
	Size int64  // truncate size
}

// FS is the file system.
type FS struct {
	mu    sync.Mutex
	names map[string]*inode
	held  map[string]bool
	calls int
	// Hook is called before every mutating call is applied, without internal locks held.
	Hook func(fs *FS, c *Call)
	// Fail, if set, may veto a mutating call by returning an error (fault injection).
	Fail func(c *Call) error
	// FailRead, if set, may make a non-mutating call (open of an existing file, readdir) fail.
	FailRead func(kind, name string) error
	Log      []Call // recent calls without payloads (kept only if KeepLog)
	KeepLog  bool
}

// New returns an empty file system.
func New() *FS {
	return &FS{names: map[string]*inode{}, held: map[string]bool{}}
}

// Calls returns the number of mutating calls so far.
func (fs *FS) Calls() int {
	fs.mu.Lock()
	defer fs.mu.Unlock()
	return fs.calls
}

func (fs *FS) pre(c *Call) error {
	fs.mu.Lock()
	fs.calls++
	c.N = fs.calls
	if fs.KeepLog {
		lc := *c
		lc.Data = nil
		lc.Size = int64(len(c.Data))
		if c.Kind == "truncate" {
			lc.Size = c.Size
		}
		fs.Log = append(fs.Log, lc)
	}
	hook, fail := fs.Hook, fs.Fail
	fs.mu.Unlock()
	if hook != nil {
		hook(fs, c)
	}
	if fail != nil {
		if err := fail(c); err != nil {
			return err
		}
	}
	return nil
}

type file struct {
	fs     *FS
	ino    *inode
	name   string
	pos    int64
	closed bool
	rdonly bool
}

// OpenFile implements fs.FileSystem.
func (fs *FS) OpenFile(name string, flag int, perm os.FileMode) (pfs.File, error) {
	if flag&os.O_APPEND != 0 {
		return nil, errors.New("append mode is not supported")
	}
	name = filepath.Clean(name)
	fs.mu.Lock()
	ino := fs.names[name]
	fr := fs.FailRead
	fs.mu.Unlock()
	if ino != nil && fr != nil {
		if err := fr("open", name); err != nil {
			return nil, err
		}
	}
	if ino == nil {
		if flag&os.O_CREATE == 0 {
			return nil, &os.PathError{Op: "open", Path: name, Err: os.ErrNotExist}
		}
		if err := fs.pre(&Call{Kind: "create", Name: name}); err != nil {
			return nil, err
		}
		fs.mu.Lock()
		ino = fs.names[name]
		if ino == nil {
			ino = &inode{}
			fs.names[name] = ino
		}
		fs.mu.Unlock()
	} else if flag&os.O_TRUNC != 0 {
		if err := fs.pre(&Call{Kind: "truncate", Name: name, Size: 0}); err != nil {
			return nil, err
		}
		fs.mu.Lock()
		ino.data = nil
		ino.pending = append(ino.pending, pendOp{trunc: true, off: 0})
		fs.mu.Unlock()
	}
	return &file{fs: fs, ino: ino, name: name, rdonly: flag&(os.O_RDWR|os.O_WRONLY) == 0 && flag&os.O_CREATE == 0}, nil
}

// Stat implements fs.FileSystem.
func (fs *FS) Stat(name string) (os.FileInfo, error) {
	name = filepath.Clean(name)
	fs.mu.Lock()
	defer fs.mu.Unlock()
	ino := fs.names[name]
	if ino == nil {
		return nil, &os.PathError{Op: "stat", Path: name, Err: os.ErrNotExist}
	}
	return info{name: filepath.Base(name), size: int64(len(ino.data))}, nil
}

// Remove implements fs.FileSystem.
func (fs *FS) Remove(name string) error {
	name = filepath.Clean(name)
	fs.mu.Lock()
	ino := fs.names[name]
	fs.mu.Unlock()
	if ino == nil {
		return &os.PathError{Op: "remove", Path: name, Err: os.ErrNotExist}
	}
	if err := fs.pre(&Call{Kind: "remove", Name: name}); err != nil {
		return err
	}
	fs.mu.Lock()
	delete(fs.names, name)
	fs.mu.Unlock()
	return nil
}

// Rename implements fs.FileSystem.
func (fs *FS) Rename(oldpath, newpath string) error {
	oldpath, newpath = filepath.Clean(oldpath), filepath.Clean(newpath)
	fs.mu.Lock()
	ino := fs.names[oldpath]
	fs.mu.Unlock()
	if ino == nil {
		return &os.LinkError{Op: "rename", Old: oldpath, New: newpath, Err: os.ErrNotExist}
	}
	if err := fs.pre(&Call{Kind: "rename", Name: oldpath, To: newpath}); err != nil {
		return err
	}
	fs.mu.Lock()
	delete(fs.names, oldpath)
	fs.names[newpath] = ino
	fs.mu.Unlock()
	return nil
}

// ReadDir implements fs.FileSystem (entries sorted by name, like os.ReadDir).
func (fs *FS) ReadDir(dir string) ([]os.DirEntry, error) {
	dir = filepath.Clean(dir)
	if fr := fs.FailRead; fr != nil {
		if err := fr("readdir", dir); err != nil {
			return nil, err
		}
	}
	fs.mu.Lock()
	defer fs.mu.Unlock()
	var res []os.DirEntry
	for name, ino := range fs.names {
		if filepath.Dir(name) == dir {
			res = append(res, info{name: filepath.Base(name), size: int64(len(ino.data))})
		}
	}
	sort.Slice(res, func(i, j int) bool { return res[i].Name() < res[j].Name() })
	return res, nil
}

// MkdirAll implements fs.FileSystem.
func (fs *FS) MkdirAll(path string, perm os.FileMode) error { return nil }

type lockFile struct {
	fs   *FS
	name string
	once bool
}

// CreateLockFile implements fs.FileSystem.
func (fs *FS) CreateLockFile(name string, perm os.FileMode) (pfs.LockFile, bool, error) {
	name = filepath.Clean(name)
	fs.mu.Lock()
	if fs.held[name] {
		fs.mu.Unlock()
		return nil, false, os.ErrExist
	}
	_, existed := fs.names[name]
	fs.mu.Unlock()
	if !existed {
		if err := fs.pre(&Call{Kind: "lock", Name: name}); err != nil {
			return nil, false, err
		}
	}
	fs.mu.Lock()
	if fs.names[name] == nil {
		fs.names[name] = &inode{}
	}
	fs.held[name] = true
	fs.mu.Unlock()
	return &lockFile{fs: fs, name: name}, existed, nil
}

func (l *lockFile) Unlock() error {
	if l.once {
		return os.ErrClosed
	}
	if err := l.fs.pre(&Call{Kind: "unlock", Name: l.name}); err != nil {
		return err
	}
	l.fs.mu.Lock()
	delete(l.fs.names, l.name)
	delete(l.fs.held, l.name)
	l.fs.mu.Unlock()
	l.once = true
	return nil
}

type info struct {
	name string
	size int64
}

func (i info) Name() string               { return i.name }
func (i info) Size() int64                { return i.size }
func (i info) Mode() os.FileMode          { return 0640 }
func (i info) ModTime() time.Time         { return time.Time{} }
func (i info) IsDir() bool                { return false }
func (i info) Sys() interface{}           { return nil }
func (i info) Type() os.FileMode          { return 0 }
func (i info) Info() (os.FileInfo, error) { return i, nil }

func (f *file) Close() error {
	if f.closed {
		return os.ErrClosed
	}
	f.closed = true
	return nil
}

func (f *file) ReadAt(p []byte, off int64) (int, error) {
	if f.closed {
		return 0, os.ErrClosed
	}
	f.fs.mu.Lock()
	defer f.fs.mu.Unlock()
	d := f.ino.data
	if off >= int64(len(d)) {
		return 0, io.EOF
	}
	n := copy(p, d[off:])
	if n < len(p) {
		return n, io.EOF
	}
	return n, nil
}

func (f *file) Read(p []byte) (int, error) {
	n, err := f.ReadAt(p, f.pos)
	f.pos += int64(n)
	if n > 0 && err == io.EOF {
		err = nil
	}
	return n, err
}

func (f *file) Seek(offset int64, whence int) (int64, error) {
	if f.closed {
		return 0, os.ErrClosed
	}
	switch whence {
	case io.SeekStart:
		f.pos = offset
	case io.SeekCurrent:
		f.pos += offset
	case io.SeekEnd:
		f.fs.mu.Lock()
		f.pos = int64(len(f.ino.data)) + offset
		f.fs.mu.Unlock()
	}
	return f.pos, nil
}

func applyWrite(d []byte, off int64, p []byte) []byte {
	end := off + int64(len(p))
	if end > int64(len(d)) {
		nd := make([]byte, end)
		copy(nd, d)
		d = nd
	} else {
		// never modify a buffer in place: slices handed out by Slice alias it (like a mapping would)
		nd := make([]byte, len(d))
		copy(nd, d)
		d = nd
	}
	copy(d[off:], p)
	return d
}

func applyTrunc(d []byte, size int64) []byte {
	nd := make([]byte, size)
	copy(nd, d)
	return nd
}

func (f *file) WriteAt(p []byte, off int64) (int, error) {
	if f.closed {
		return 0, os.ErrClosed
	}
	if f.rdonly {
		return 0, os.ErrPermission
	}
	cp := append([]byte(nil), p...)
	if err := f.fs.pre(&Call{Kind: "write", Name: f.name, Off: off, Data: cp}); err != nil {
		return 0, err
	}
	f.fs.mu.Lock()
	f.ino.data = applyWrite(f.ino.data, off, cp)
	f.ino.pending = append(f.ino.pending, pendOp{off: off, data: cp})
	f.fs.mu.Unlock()
	return len(p), nil
}

func (f *file) Write(p []byte) (int, error) {
	n, err := f.WriteAt(p, f.pos)
	f.pos += int64(n)
	return n, err
}

func (f *file) Stat() (os.FileInfo, error) {
	if f.closed {
		return nil, os.ErrClosed
	}
	f.fs.mu.Lock()
	defer f.fs.mu.Unlock()
	return info{name: filepath.Base(f.name), size: int64(len(f.ino.data))}, nil
}

func (f *file) Sync() error {
	if f.closed {
		return os.ErrClosed
	}
	if err := f.fs.pre(&Call{Kind: "sync", Name: f.name}); err != nil {
		return err
	}
	f.fs.mu.Lock()
	f.ino.durable = append([]byte(nil), f.ino.data...)
	f.ino.pending = nil
	f.fs.mu.Unlock()
	return nil
}

func (f *file) Truncate(size int64) error {
	if f.closed {
		return os.ErrClosed
	}
	if err := f.fs.pre(&Call{Kind: "truncate", Name: f.name, Size: size}); err != nil {
		return err
	}
	f.fs.mu.Lock()
	f.ino.data = applyTrunc(f.ino.data, size)
	f.ino.pending = append(f.ino.pending, pendOp{trunc: true, off: size})
	f.fs.mu.Unlock()
	return nil
}

func (f *file) Slice(start int64, end int64) ([]byte, error) {
	if f.closed {
		return nil, os.ErrClosed
	}
	f.fs.mu.Lock()
	defer f.fs.mu.Unlock()
	if end > int64(len(f.ino.data)) {
		return nil, io.EOF
	}
	return f.ino.data[start:end:end], nil
}

// ---------------------------------------------------------------------------------------------
// Images

// FileImage is one file of an image.
type FileImage struct {
	Data    []byte
	Durable []byte
	Pending []pendOp
}

// Image is a copy of the whole file-system state.
type Image struct {
	Files map[string]*FileImage
}

// Snapshot copies the current state (buffers are never modified in place, so sharing is safe).
func (fs *FS) Snapshot() *Image {
	fs.mu.Lock()
	defer fs.mu.Unlock()
	im := &Image{Files: make(map[string]*FileImage, len(fs.names))}
	for name, ino := range fs.names {
		im.Files[name] = &FileImage{Data: ino.data, Durable: ino.durable, Pending: append([]pendOp(nil), ino.pending...)}
	}
	return im
}

// Has reports whether the image contains the named file.
func (im *Image) Has(name string) bool { _, ok := im.Files[filepath.Clean(name)]; return ok }

// Names returns the sorted file names.
func (im *Image) Names() []string {
	var r []string
	for n := range im.Files {
		r = append(r, n)
	}
	sort.Strings(r)
	return r
}

// Content is a plain name -> bytes view of what a reopening process would find.
type Content map[string][]byte

// Digest identifies a content (optionally restricted by keep).
func (c Content) Digest(keep func(name string) bool) uint64 {
	names := make([]string, 0, len(c))
	for n := range c {
		if keep == nil || keep(n) {
			names = append(names, n)
		}
	}
	sort.Strings(names)
	h := fnv.New64a()
	var lb [8]byte
	for _, n := range names {
		h.Write([]byte(n))
		h.Write([]byte{0})
		l := len(c[n])
		for i := 0; i < 8; i++ {
			lb[i] = byte(l >> (8 * i))
		}
		h.Write(lb[:])
		h.Write(c[n])
	}
	return h.Sum64()
}

// CrashContent is the image as a process crash leaves it: every completed call applied.
func (im *Image) CrashContent() Content {
	c := Content{}
	for n, f := range im.Files {
		c[n] = f.Data
	}
	return c
}

// TornCuts returns the 512-aligned file offsets strictly inside the write [off, off+n).
func TornCuts(off int64, n int) []int64 {
	var cuts []int64
	first := (off/Sector + 1) * Sector
	for c := first; c < off+int64(n); c += Sector {
		cuts = append(cuts, c)
	}
	return cuts
}

// WithTornWrite returns the crash content with the in-flight write applied up to file offset cut.
func (im *Image) WithTornWrite(c *Call, cut int64) Content {
	res := im.CrashContent()
	name := filepath.Clean(c.Name)
	if cut <= c.Off {
		return res
	}
	n := cut - c.Off
	if n > int64(len(c.Data)) {
		n = int64(len(c.Data))
	}
	res[name] = applyWrite(res[name], c.Off, c.Data[:n])
	return res
}

// PendingCounts returns, per file with unsynced operations, how many there are.
func (im *Image) PendingCounts() map[string]int {
	r := map[string]int{}
	for n, f := range im.Files {
		if len(f.Pending) > 0 {
			r[n] = len(f.Pending)
		}
	}
	return r
}

// Keep selects, per file, how much of the unsynced history survives a power loss:
// the first N pending operations, and if Cut > 0 and operation N+1 is a write, that write up
// to file offset Cut (512-aligned).
type Keep struct {
	N   int
	Cut int64
}

// PowerLossContent builds the content after a power loss. Files absent from keep keep nothing
// beyond their synced content when def is false, everything when def is true.
func (im *Image) PowerLossContent(keep map[string]Keep, def bool) Content {
	res := Content{}
	for n, f := range im.Files {
		k, ok := keep[n]
		if !ok {
			if def {
				res[n] = f.Data
				continue
			}
			k = Keep{}
		}
		d := f.Durable
		cnt := k.N
		if cnt > len(f.Pending) {
			cnt = len(f.Pending)
		}
		for i := 0; i < cnt; i++ {
			op := f.Pending[i]
			if op.trunc {
				d = applyTrunc(d, op.off)
			} else {
				d = applyWrite(d, op.off, op.data)
			}
		}
		if k.Cut > 0 && cnt < len(f.Pending) && !f.Pending[cnt].trunc {
			op := f.Pending[cnt]
			if k.Cut > op.off {
				m := k.Cut - op.off
				if m > int64(len(op.data)) {
					m = int64(len(op.data))
				}
				d = applyWrite(d, op.off, op.data[:m])
			}
		}
		if d == nil {
			d = []byte{}
		}
		res[n] = d
	}
	return res
}

// PendingCuts lists the torn-cut offsets available for pending operation i of the file.
func (im *Image) PendingCuts(name string, i int) []int64 {
	f := im.Files[name]
	if f == nil || i >= len(f.Pending) || f.Pending[i].trunc {
		return nil
	}
	return TornCuts(f.Pending[i].off, len(f.Pending[i].data))
}

// FromContent builds a file system holding the content; everything in it is durable.
func FromContent(c Content) *FS {
	fs := New()
	for n, d := range c {
		cp := append([]byte(nil), d...)
		fs.names[n] = &inode{data: cp, durable: cp}
	}
	return fs
}

// Content returns the current content of the file system.
func (fs *FS) Content() Content {
	return fs.Snapshot().CrashContent()
}

// ReadFile returns the current bytes of a file.
func (fs *FS) ReadFile(name string) ([]byte, bool) {
	fs.mu.Lock()
	defer fs.mu.Unlock()
	ino := fs.names[filepath.Clean(name)]
	if ino == nil {
		return nil, false
	}
	return ino.data, true
}

// WriteFile replaces a file's bytes (harness-side damage injection; content becomes durable).
func (fs *FS) WriteFile(name string, data []byte) {
	fs.mu.Lock()
	defer fs.mu.Unlock()
	cp := append([]byte(nil), data...)
	fs.names[filepath.Clean(name)] = &inode{data: cp, durable: cp}
}

// DropLocks forgets lock holders (the process died).
func (fs *FS) DropLocks() {
	fs.mu.Lock()
	fs.held = map[string]bool{}
	fs.mu.Unlock()
}

var _ pfs.FileSystem = (*FS)(nil)
