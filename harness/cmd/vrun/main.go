// vrun drives the real pogreb code and writes recordings for TLC.
package main

import (
	"encoding/json"
	"flag"
	"fmt"
	"math/rand"
	"os"
	"time"

	"github.com/akrylysov/pogreb"

	"verif/harness/crashfs"
	"verif/harness/h"
)

func fatal(err error) {
	fmt.Fprintln(os.Stderr, "vrun:", err)
	os.Exit(2)
}

func main() {
	if len(os.Args) < 2 {
		fatal(fmt.Errorf("usage: vrun <command> [flags]"))
	}
	cmd := os.Args[1]
	fl := flag.NewFlagSet(cmd, flag.ExitOnError)
	out := fl.String("out", "rec.ndjson", "output recording file")
	seed := fl.Int64("seed", 1, "random seed")
	n := fl.Int("n", 10, "number of programs")
	nops := fl.Int("ops", 25, "operations per program")
	nkeys := fl.Int("keys", 8, "keys per program")
	mode := fl.String("mode", "crash", "seq | crash | power")
	depth := fl.Int("depth", 0, "crash points inside recovering opens (nesting)")
	twice := fl.Bool("twice", false, "recover every image twice")
	syncw := fl.Bool("syncw", false, "sync after every write")
	epochs := fl.Bool("epochs", false, "continue runs inside crash images")
	plimit := fl.Int("plimit", 48, "power-loss images per instant")
	stats := fl.String("stats", "", "write statistics JSON here")
	rseed := fl.Int64("rseed", 0, "runner seed override (replay)")
	strict := fl.Bool("strict", false, "errors of Sync/Compact/Backup/Close are violations (C15 runs)")
	onlyClosed := fl.Bool("onlyclosed", false, "fault images only between Close and the end of the next Open")
	noReopen := fl.Bool("noreopen", false, "no clean restarts in generated programs")
	fsname := fl.String("fs", "crashfs", "file system: crashfs | mem | os | osmmap")
	dir := fl.String("dir", os.TempDir(), "scratch directory for real file systems")
	inject := fl.Bool("inject", false, "writers at the yield points of Compact")
	backup := fl.Bool("backup", false, "Backup calls with injected writers")
	scans := fl.Bool("scans", false, "scans stepped call by call between writes")
	alt := fl.Bool("alt", false, "alternate fs.OS and fs.OSMMap between sessions (C02)")
	workers := fl.Int("workers", 4, "max worker goroutines (stress)")
	maint := fl.Bool("maint", false, "maintenance goroutine (stress)")
	closeMid := fl.Bool("closemid", false, "Close races with the workers (stress)")
	bg := fl.Bool("bg", false, "background sync/compaction workers (stress)")
	shard := fl.Int("shard", 0, "lock: run schedules j with j % workers == shard")
	open2 := fl.Bool("open2", false, "competing Open calls while the database is open (C13)")
	claims := fl.Bool("claims", false, "framing: garbage headers of all size classes (C19)")
	afterCompact := fl.Bool("aftercompact", false, "Sync/Put/Delete/Backup after every Compact (C15)")
	hold := fl.Bool("hold", false, "keep and re-read every slice the database returns (C14)")
	huge := fl.Bool("huge", false, "sizes: include the 512 MiB limit (needs ~3 GB of memory and disk)")
	golden := fl.String("golden", "/verif/golden", "golden corpus directory")
	probe := fl.Bool("probe", false, "Count+Get probes after every write instead of a full read-back")
	grow := fl.Bool("grow", false, "stress: workers insert new keys (index growth during compaction and scans)")
	sessions := fl.Bool("sessions", false, "restart-centred patterns (compaction-only sessions, equal-count sessions, bursts after reopen)")
	compactHeavy := fl.Bool("compactheavy", false, "fill several segments with live and dead records, then compact (promotions overflow the current segment)")
	oneClass := fl.Bool("oneclass", false, "seq: all keys share one low-bit class (very long bucket chains)")
	failOpen := fl.Bool("failopen", false, "a failing Open attempt (injected fs error) before some images are reopened")
	failMaint := fl.Bool("failmaint", false, "fault: some Compact / Sync / Backup calls fail with an injected file-system error; the database must stay usable")
	failClose := fl.Bool("failclose", false, "fault: some Close calls fail with an injected file-system error; the process exits and the directory is opened again")
	noPin := fl.Bool("nopin", false, "seq: every second program runs with pogreb's own random hash seeds")
	bigVals := fl.Bool("bigvals", false, "stress: values of 1-4 MiB (long copies out of the file, one segment per put)")
	slowFS := fl.Bool("slowfs", false, "stress: reads of segment and index files yield / sleep briefly before touching the file (widens unlocked windows of readers)")
	holdBG := fl.Bool("holdbg", false, "stress: park the background compaction at its first yield point and call Close meanwhile")
	tearSeq := fl.Bool("tear", false, "seq: simulated unclean shutdowns (garbage appended to / bytes cut off the newest segment) and recovery")
	walStates := fl.Bool("walstates", false, "strict mode: log the projected state of the write-ahead log after every call (spec/TraceWal.tla)")
	in := fl.String("in", "", "program file (ndjson) to replay instead of random programs")
	fl.Parse(os.Args[2:])
	t0 := time.Now()

	switch cmd {
	case "fault":
		ks := h.PinSeed(0x9e3779b9)
		rec, err := h.NewRec(*out)
		if err != nil {
			fatal(err)
		}
		var progs []*h.Program
		if *in != "" {
			progs, err = h.LoadPrograms(*in)
			if err != nil {
				fatal(err)
			}
		}
		tot := map[string]int{}
		var samples []interface{}
		count := *n
		if progs != nil {
			count = len(progs)
		}
		for i := 0; i < count; i++ {
			rng := rand.New(rand.NewSource(*seed*1000003 + int64(i)))
			var p *h.Program
			if progs != nil {
				p = progs[i]
			} else {
				keys := ks.InClass(1, uint32(i), *nkeys)
				cfg := h.SmallCfg(rng, *syncw)
				cfg.Strict = *strict
				p = h.GenProgram(rng, fmt.Sprintf("%s-%d-%d", *mode, *seed, i), cfg, h.GenOpts{
					Keys: keys, Ops: *nops, BigVals: true, Compact: true, Reopen: !*noReopen, Sync: true, Reads: true,
					CrashAt: *epochs, Close: !*noReopen && rng.Intn(2) == 0, Inject: *inject, Backup: *backup, Scans: *scans, Open2: *open2,
					Sessions: *sessions, CompactHeavy: *compactHeavy})
			}
			rs := *seed + int64(i)
			if *rseed != 0 {
				rs = *rseed
			}
			r := h.NewRunner(rec, p, h.RunParams{Mode: *mode, Seed: rs, Depth: *depth, Twice: *twice, PLimit: *plimit, OnlyClosed: *onlyClosed,
				Probe: *probe, FullEvery: 40, FailOpen: *failOpen, FailClose: *failClose, FailMaint: *failMaint})
			if *mode == "seq" {
				defer r.CloseAndDecode()
			}
			if err := r.Run(p); err != nil {
				rec.Emit(h.Ev{"e": "note", "what": "run ended: " + err.Error()})
				tot["ended_early"]++
			}
			r.Finish()
			tot["instants"] += r.Instants
			tot["images"] += r.Images
			tot["distinct_images"] += r.Distinct
			tot["nested_instants"] += r.Nested
			tot["epochs"] += r.Epochs
			tot["failed_opens"] += r.FailedOpens
			tot["failed_closes"] += r.FailedCloses
			tot["failed_maint"] += r.FailedMaint
			tot["ops"] += r.Ops
			tot["programs"]++
			if i < 2 {
				samples = append(samples, p)
			}
		}
		if err := rec.Close(); err != nil {
			fatal(err)
		}
		tot["events"] = rec.Events
		tot["recordings"] = rec.Recs
		writeStats(*stats, tot, samples, t0)
	case "seq":
		// sequential map-semantics programs over engineered key sets (C01, C02, C11 quiescent, C14, C16)
		ks := h.PinSeed(uint32(0x51ed2701 + *seed))
		rec, err := h.NewRec(*out)
		if err != nil {
			fatal(err)
		}
		tot := map[string]int{}
		var samples []interface{}
		coll := ks.FullCollisions(6)
		for i := 0; i < *n; i++ {
			rng := rand.New(rand.NewSource(*seed*1000003 + int64(i)))
			// key universe: one or two low-bit classes (long chains, overflow buckets) plus full 32-bit collisions
			var keys []string
			bits := uint(1 + rng.Intn(3))
			per := *nkeys / 2
			if *oneClass {
				// one long chain: 5+ buckets, splits that keep 63+ slots on one side
				per, bits = *nkeys, 2+uint(rng.Intn(2))
			}
			class1 := uint32(rng.Intn(8))
			keys = append(keys, ks.InClass(bits, class1, per)...)
			keys = append(keys, ks.InClass(bits+1, uint32(rng.Intn(16)), *nkeys-per)...)
			for _, g := range coll[:2+rng.Intn(3)] {
				keys = append(keys, g...)
			}
			cfg := h.SmallCfg(rng, false)
			cfg.FS = *fsname
			cfg.Strict = *strict
			cfg.MaxSeg = []uint32{2048, 8192, 65536}[rng.Intn(3)]
			if *backup {
				cfg.MaxSeg = []uint32{1024, 2048, 4096}[rng.Intn(3)]
			}
			var freshPool []string
			if *sessions || *scans {
				freshPool = ks.InClass(bits, class1, 600)
			}
			p := h.GenProgram(rng, fmt.Sprintf("seq-%s-%d-%d", *fsname, *seed, i), cfg, h.GenOpts{Fresh: freshPool, Sessions: *sessions,
				Keys: keys, Ops: *nops, BigVals: rng.Intn(3) == 0, Compact: true, Reopen: true, Sync: true, Reads: true, Close: false, Churn: true,
				Inject: *inject, Backup: *backup, Scans: *scans, MoreReopen: *alt, Open2: *open2, AfterCompact: *afterCompact, Tear: *tearSeq})
			if *afterCompact && i%3 == 2 {
				cfg.MinFrag = 0.0001
				p = h.EmptyingProgram(rng, p.ID+"-empty", cfg, keys)
			}
			p.Cfg.Strict = *strict
			if *noPin && i%2 == 1 {
				// a random hash seed per database, as in production (the engineered classes do not apply then)
				pogreb.VerifPinnedSeed = nil
			} else if *noPin {
				h.PinSeed(ks.Seed)
			}
			var r *h.Runner
			rp := h.RunParams{Mode: "seq", Seed: *seed + int64(i), Probe: len(keys) > 16, FullEvery: 25, Alt: *alt, Hold: *hold, WalStates: *walStates}
			if pogreb.VerifPinnedSeed == nil {
				rp.HashSeed = 1 // recorded as "not pinned"
			}
			if *fsname == "crashfs" {
				r = h.NewRunner(rec, p, rp)
			} else {
				r = h.NewRunnerOn(rec, p, fmt.Sprintf("%s/seq-%d-%d-%d", *dir, os.Getpid(), *seed, i), rp)
			}
			if err := r.Run(p); err != nil {
				rec.Emit(h.Ev{"e": "note", "what": "run ended: " + err.Error()})
				tot["ended_early"]++
			} else {
				r.CloseAndDecode()
			}
			r.Finish()
			tot["ops"] += r.Ops
			tot["programs"]++
			tot["keys"] += len(keys)
			if i < 1 {
				samples = append(samples, h.Ev{"id": p.ID, "cfg": p.Cfg, "keys": len(keys), "first_ops": p.Ops[:12]})
			}
		}
		if err := rec.Close(); err != nil {
			fatal(err)
		}
		tot["events"] = rec.Events
		tot["recordings"] = rec.Recs
		writeStats(*stats, tot, samples, t0)
	case "closerace":
		// a Close / compaction started at the moment a reader is inside its critical section, on a file system that
		// invalidates the memory of a file when it is closed (C10, C14, C07)
		h.PinSeed(uint32(0x3c6ef372 + *seed))
		rec, err := h.NewRec(*out)
		if err != nil {
			fatal(err)
		}
		tot := h.CloseRace(rec, *seed, *n)
		if err := rec.Close(); err != nil {
			fatal(err)
		}
		tot["events"] = rec.Events
		tot["recordings"] = rec.Recs
		writeStats(*stats, tot, nil, t0)
	case "stress":
		// free-running concurrent histories (C07 linearizability, C10 races/faults/deadlock/Close)
		ks := h.PinSeed(uint32(0x7f4a7c15 + *seed))
		rec, err := h.NewRec(*out)
		if err != nil {
			fatal(err)
		}
		tot := map[string]int{}
		var samples []interface{}
		for i := 0; i < *n; i++ {
			rng := rand.New(rand.NewSource(*seed*1000003 + int64(i)))
			o := h.StressOpts{ID: fmt.Sprintf("stress-%s-%d-%d", *fsname, *seed, i), FS: *fsname,
				Dir:     fmt.Sprintf("%s/st-%d-%d-%d", *dir, os.Getpid(), *seed, i),
				Workers: 2 + rng.Intn(*workers-1), OpsEach: *nops, Keys: ks.InClass(1, uint32(i), *nkeys),
				Maint: *maint, CloseMid: *closeMid && rng.Intn(2) == 0, BG: *bg && rng.Intn(2) == 0, Prefill: rng.Intn(2 * *nkeys),
				Seed: *seed*7 + int64(i), MaxSeg: []uint32{1024, 4096, 1 << 20}[rng.Intn(3)], Grow: *grow,
				SyncW: *syncw && rng.Intn(2) == 0, HoldBG: *holdBG, Big: *bigVals}
			if *holdBG {
				o.BG, o.CloseMid = true, true
			}
			if *grow {
				// enough keys of one hash class that buckets overflow and split while the history runs
				o.Keys = ks.InClass(2, uint32(i), *nkeys)
				o.Prefill = *nkeys / 2
				o.MaxSeg = 2048
			}
			if *fsname == "crashfs" {
				o.Root = crashfs.New()
				o.Dir = "db"
			} else {
				o.Root = h.RootFS(*fsname)
			}
			if *slowFS {
				o.Root = h.SlowFS(o.Root, *seed*31+int64(i))
			}
			r := h.Stress(rec, o)
			tot["histories"]++
			if r.Stuck {
				tot["stuck"]++
				break
			}
			if r.Leak {
				tot["leak"]++
			}
			if i < 1 {
				samples = append(samples, h.Ev{"id": o.ID, "workers": o.Workers, "ops_each": o.OpsEach, "keys": o.Keys, "maint": o.Maint, "closemid": o.CloseMid, "bg": o.BG})
			}
		}
		if err := rec.Close(); err != nil {
			fatal(err)
		}
		tot["events"] = rec.Events
		tot["recordings"] = rec.Recs
		writeStats(*stats, tot, samples, t0)
	case "lock":
		// every interleaving of the lock system calls of a few processes (C13), on a real directory
		rec, err := h.NewRec(*out)
		if err != nil {
			fatal(err)
		}
		rng := rand.New(rand.NewSource(*seed))
		scen := [][]h.LockScript{
			{{"open", "close"}, {"open"}, {"open"}},
			{{"open", "die"}, {"open"}},
			{{"open", "close", "open"}, {"open", "close"}},
			{{"open", "die"}, {"open", "close"}, {"open"}},
			{{"open", "close"}, {"open", "die"}, {"open"}},
		}
		if *nkeys > 0 && *nkeys < len(scen) {
			scen = scen[:*nkeys]
		}
		x := &h.LockExplorer{R: rec, Base: *dir}
		tot := map[string]int{}
		var samples []interface{}
		for si, sc := range scen {
			scheds := h.Schedules(sc, *n, rng.Intn)
			for j, sd := range scheds {
				if j%*workers != *shard {
					continue
				}
				x.Run(fmt.Sprintf("lock-s%d-%d", si, j), sc, sd)
				tot["schedules"]++
			}
			if si < 1 {
				samples = append(samples, h.Ev{"scripts": sc, "schedule": scheds[0]})
			}
		}
		if err := rec.Close(); err != nil {
			fatal(err)
		}
		tot["events"] = rec.Events
		tot["recordings"] = rec.Recs
		writeStats(*stats, tot, samples, t0)
	case "framing":
		h.PinSeed(0x1b873593)
		rec, err := h.NewRec(*out)
		if err != nil {
			fatal(err)
		}
		tot := map[string]int{}
		for i := 0; i < *n; i++ {
			c := h.Framing(rec, h.FramingOpts{ID: fmt.Sprintf("framing-%d-%d", *seed, i), Seed: *seed*1000003 + int64(i), Claims: *claims})
			tot["cases"]++
			if c > 1<<24 {
				tot["huge_claims"]++
			}
		}
		if err := rec.Close(); err != nil {
			fatal(err)
		}
		tot["events"] = rec.Events
		tot["recordings"] = rec.Recs
		writeStats(*stats, tot, nil, t0)
	case "sizes":
		// boundary lengths and size limits (C16), sequentially or with crash images
		h.PinSeed(uint32(0x2545f491 + *seed))
		rec, err := h.NewRec(*out)
		if err != nil {
			fatal(err)
		}
		tot := map[string]int{}
		var samples []interface{}
		for i := 0; i < *n; i++ {
			rng := rand.New(rand.NewSource(*seed*1000003 + int64(i)))
			cfg := h.Cfg{FS: *fsname, MaxSeg: []uint32{2048, 4096, 70000, 1 << 20}[rng.Intn(4)], MinSeg: 1, MinFrag: 0.2}
			if *huge {
				cfg.MaxSeg = 0 // the default: 4 GiB
			}
			p := h.SizesProgram(rng, fmt.Sprintf("sizes-%s-%s-%d-%d", *mode, *fsname, *seed, i), cfg, *huge)
			var r *h.Runner
			rp := h.RunParams{Mode: *mode, Seed: *seed + int64(i), Hold: false}
			if *fsname == "crashfs" {
				r = h.NewRunner(rec, p, rp)
			} else {
				r = h.NewRunnerOn(rec, p, fmt.Sprintf("%s/sizes-%d-%d-%d", *dir, os.Getpid(), *seed, i), rp)
			}
			if *huge {
				r.ReadEvery = false
			}
			if err := r.Run(p); err != nil {
				rec.Emit(h.Ev{"e": "note", "what": "run ended: " + err.Error()})
				tot["ended_early"]++
			} else {
				r.CloseAndDecode()
			}
			r.Finish()
			tot["ops"] += r.Ops
			tot["images"] += r.Images
			tot["distinct_images"] += r.Distinct
			tot["programs"]++
			if i < 1 {
				samples = append(samples, h.Ev{"id": p.ID, "cfg": p.Cfg, "first_ops": p.Ops[:10]})
			}
			if *fsname != "crashfs" {
				os.RemoveAll(fmt.Sprintf("%s/sizes-%d-%d-%d", *dir, os.Getpid(), *seed, i))
			}
		}
		if err := rec.Close(); err != nil {
			fatal(err)
		}
		tot["events"] = rec.Events
		tot["recordings"] = rec.Recs
		writeStats(*stats, tot, samples, t0)
	case "diff":
		// the same program on fs.Mem, fs.OS, fs.OSMMap and crashfs (C17)
		ks := h.PinSeed(uint32(0x85ebca6b + *seed))
		rec, err := h.NewRec(*out)
		if err != nil {
			fatal(err)
		}
		tot := map[string]int{}
		var samples []interface{}
		for i := 0; i < *n; i++ {
			rng := rand.New(rand.NewSource(*seed*1000003 + int64(i)))
			keys := append(ks.InClass(2, uint32(i), *nkeys/2), ks.Plain(*nkeys-*nkeys/2)...)
			cfg := h.SmallCfg(rng, false)
			p := h.GenProgram(rng, fmt.Sprintf("diff-%d-%d", *seed, i), cfg, h.GenOpts{Keys: keys, Ops: *nops, BigVals: true, Compact: true,
				Reopen: true, Sync: true, Reads: true, Churn: true, Tear: true, Huge: true})
			h.Diff(rec, p, *dir, *seed+int64(i))
			tot["programs"]++
			tot["ops"] += len(p.Ops) * 4
			if i < 1 {
				samples = append(samples, h.Ev{"id": p.ID, "cfg": p.Cfg, "first_ops": p.Ops[:10]})
			}
		}
		if err := rec.Close(); err != nil {
			fatal(err)
		}
		tot["events"] = rec.Events
		tot["recordings"] = rec.Recs
		writeStats(*stats, tot, samples, t0)
	case "golden-gen":
		if err := h.GoldenGen(*dir); err != nil {
			fatal(err)
		}
		writeStats(*stats, map[string]int{"generated": 1}, nil, t0)
	case "golden-check":
		rec, err := h.NewRec(*out)
		if err != nil {
			fatal(err)
		}
		cnt, err := h.GoldenCheck(rec, *golden, *dir, *seed)
		if err != nil {
			fatal(err)
		}
		if err := rec.Close(); err != nil {
			fatal(err)
		}
		writeStats(*stats, map[string]int{"opened": cnt, "events": rec.Events, "recordings": rec.Recs}, nil, t0)
	case "steady":
		rec, err := h.NewRec(*out)
		if err != nil {
			fatal(err)
		}
		tot := map[string]int{}
		for i := 0; i < *n; i++ {
			d := fmt.Sprintf("%s/steady-%d-%d-%d", *dir, os.Getpid(), *seed, i)
			tot["ops"] += h.Steady(rec, fmt.Sprintf("steady-%s-%d-%d", *fsname, *seed, i), *fsname, d, *nops, *nkeys, *seed*31+int64(i))
			tot["runs"]++
			os.RemoveAll(d)
		}
		if err := rec.Close(); err != nil {
			fatal(err)
		}
		tot["events"] = rec.Events
		tot["recordings"] = rec.Recs
		writeStats(*stats, tot, nil, t0)
	case "regress":
		// replays recorded failing programs with the runner parameters they were found with
		rec, err := h.NewRec(*out)
		if err != nil {
			fatal(err)
		}
		items, err := h.LoadRegress(*in)
		if err != nil {
			fatal(err)
		}
		tot := map[string]int{}
		var samples []interface{}
		for _, it := range items {
			if it.Run.HashSeed == 0 {
				it.Run.HashSeed = 0x9e3779b9
			}
			h.PinSeed(it.Run.HashSeed)
			r := h.NewRunner(rec, it.Prog, it.Run)
			if err := r.Run(it.Prog); err != nil {
				rec.Emit(h.Ev{"e": "note", "what": "run ended: " + err.Error()})
				tot["ended_early"]++
			}
			r.Finish()
			tot["images"] += r.Images
			tot["distinct_images"] += r.Distinct
			tot["programs"]++
			if len(samples) < 1 {
				samples = append(samples, it.Prog)
			}
		}
		if err := rec.Close(); err != nil {
			fatal(err)
		}
		tot["events"] = rec.Events
		tot["recordings"] = rec.Recs
		writeStats(*stats, tot, samples, t0)
	default:
		fatal(fmt.Errorf("unknown command %q", cmd))
	}
}

func writeStats(path string, tot map[string]int, samples []interface{}, t0 time.Time) {
	st := map[string]interface{}{"counts": tot, "samples": samples, "wall_s": time.Since(t0).Seconds()}
	b, _ := json.MarshalIndent(st, "", " ")
	if path == "" {
		fmt.Println(string(b))
		return
	}
	if err := os.WriteFile(path, b, 0644); err != nil {
		fatal(err)
	}
}
